// C17  Elementary and reduction functions return their mathematical values.
// Oracles: long-double (x87 80-bit) definitions that share no code with dsplib; principal-value angle = atan2(im, re),
// z^p = exp(p Log z) on the principal branch, rms = sqrt(mean |x|^2), stddev with n-1, norms, dB / degree conversions.
// Tolerances (DESIGN C17): element-wise 8 eps |ref|; power (4 + |p| pi) 4 eps |ref|; accumulations 4 n eps sum|terms|
// (+ 4 eps where the terms are products / squares rounded before the accumulation: dot, rms; + 8 eps for norm);
// where a function rounds an intermediate *exponent* (db2pow, db2mag, norm p>=3, dB round trips) the tolerance carries
// the condition number of that exponentiation (derived next to the reference, see each sub-check).
// Copies / selections (real, imag, conj, complex, round, abs(real), flip, repelem, zeropad, delayseq, up/downsample,
// integer arange, min/max) are compared exactly (-0 == +0).
#include "kit/num.h"
#include "kit/prelude.h"
#include <dsplib.h>

#include <cfloat>

using namespace vk;

namespace {

using dsplib::arr_cmplx;
using dsplib::arr_real;
using dsplib::cmplx_t;
using dsplib::real_t;

struct Val
{
    double re{0}, im{0};
};
inline cld C(Val v) { return cld(v.re, v.im); }
const ld TINY = 8 * 4.9406564584124654e-324L;   // results below the normal range round to the subnormal grid
const double NZ = -0.0;

arr_real AR(const std::vector<Val>& v) {
    arr_real x(int(v.size()));
    for (size_t i = 0; i < v.size(); ++i) x[int(i)] = v[i].re;
    return x;
}
arr_cmplx AC(const std::vector<Val>& v) {
    arr_cmplx x(int(v.size()));
    for (size_t i = 0; i < v.size(); ++i) x[int(i)] = cmplx_t(v[i].re, v[i].im);
    return x;
}
std::vector<Val> VR(const arr_real& x) {
    std::vector<Val> v(size_t(x.size()));
    for (int i = 0; i < x.size(); ++i) v[size_t(i)].re = x[i];
    return v;
}
std::vector<Val> VC(const arr_cmplx& x) {
    std::vector<Val> v(size_t(x.size()));
    for (int i = 0; i < x.size(); ++i) { v[size_t(i)].re = x[i].re; v[size_t(i)].im = x[i].im; }
    return v;
}
const char* len_class(int n) { return n <= 3 ? "len:1-3" : n <= 16 ? "len:4-16" : n <= 128 ? "len:17-128" : "len:129-1000"; }

// ------------------------------------------------------------------------------------------- scalar argument classes
enum RCls { R_ZERO, R_NZERO, R_ONE, R_MONE, R_INT, R_HALF, R_GAUSS, R_ABSGAUSS, R_K1000, R_LOGPOS, R_LOGNEG, R_LOGSIGNED,
            R_NEAR1, R_U700, R_LOG700, R_DB, R_DBSMALL, R_PIMULT, R_DEG, R_N };
const char* const RNAME[] = {"+0", "-0", "+1", "-1", "integer", "half-integer", "gauss", "|gauss|", "gauss*1000", "10^U(-100,100)", "-10^U(-100,100)",
                             "+-10^U(-100,100)", "1+tiny", "U(-700,700)", "+-10^U(-100,2.84)", "U(-1000,1000)dB", "gauss*10^U(-12,1)dB", "k*pi/4", "k*45deg"};
double signed_by(Rng& r, double v) { return r.coin() ? v : -v; }
double gen_r(Rng& r, int cls, double emax = 100) {
    switch (cls) {
    case R_ZERO: return 0.0;
    case R_NZERO: return NZ;
    case R_ONE: return 1.0;
    case R_MONE: return -1.0;
    case R_INT: return double(r.range(-1000, 1000));
    case R_HALF: {
        static const double sp[] = {0.5, -0.5, 1.5, -1.5, 2.5, -2.5, 0.49999999999999994, -0.49999999999999994, 4503599627370495.5, -4503599627370495.5,
                                    2251799813685248.5, -2251799813685248.5, 0.50000000000000011, 4503599627370497.0};
        const int ns = int(sizeof sp / sizeof sp[0]);
        int k = r.range(0, 2 * ns);
        return k < ns ? sp[k] : double(r.range(-100000, 100000)) + 0.5;
    }
    case R_GAUSS: return r.gauss();
    case R_ABSGAUSS: { double g = std::fabs(r.gauss()); return g > 0 ? g : 1.0; }
    case R_K1000: return r.gauss() * 1000;
    case R_LOGPOS: return r.logmag(-emax, emax);
    case R_LOGNEG: return -r.logmag(-emax, emax);
    case R_LOGSIGNED: return signed_by(r, r.logmag(-emax, emax));
    case R_NEAR1: { double v = 1.0 + r.gauss() * r.logmag(-16, -1); return v > 0 ? v : 1.0; }
    case R_U700: return r.uni(-700, 700);
    case R_LOG700: return signed_by(r, r.logmag(-100, 2.84));
    case R_DB: return r.uni(-1000, 1000);
    case R_DBSMALL: return r.gauss() * r.logmag(-12, 1);
    case R_PIMULT: {
        double v = double(r.range(-16, 16)) * M_PI / 4;
        int k = r.range(0, 3);
        if (v == 0) return r.coin() ? 0.0 : NZ;
        return k == 0 ? std::nextafter(v, 1e9) : k == 1 ? std::nextafter(v, -1e9) : v;
    }
    case R_DEG: return 45.0 * r.range(-16, 16);
    }
    return 0;
}

enum CCls { C_ZERO4, C_UNITS, C_POSAX, C_NEGAX_P, C_NEGAX_M, C_IMAX, C_GAUSS, C_LOG, C_MIXED, C_NEARNEG, C_EXPDOM, C_EXPBIG, C_HALF, C_K1000, C_NEARPOLE, C_N };
const char* const CNAME[] = {"signed-zeros", "+-1,+-i", "positive-real-axis", "negative-real-axis(im=+0)", "negative-real-axis(im=-0)", "imaginary-axis", "gauss",
                             "10^U(-100,100)*e^(i phi)", "re,im independent +-10^U(-100,100)", "just off the negative real axis", "re in [-700,700], moderate im",
                             "re in [-700,700], huge im", "half-integer parts", "gauss*1000", "near a pole of tanh"};
Val gen_c(Rng& r, int cls, double emax = 100) {
    Val v;
    switch (cls) {
    case C_ZERO4: { int k = r.range(0, 3); v.re = (k & 1) ? NZ : 0.0; v.im = (k & 2) ? NZ : 0.0; break; }
    case C_UNITS: {
        int k = r.range(0, 7);
        double u = (k & 1) ? -1.0 : 1.0, z = (k & 2) ? NZ : 0.0;
        if (k & 4) { v.re = z; v.im = u; } else { v.re = u; v.im = z; }
        break;
    }
    case C_POSAX: v.re = r.logmag(-emax, emax); v.im = r.coin() ? NZ : 0.0; break;
    case C_NEGAX_P: v.re = -r.logmag(-emax, emax); v.im = 0.0; break;
    case C_NEGAX_M: v.re = -r.logmag(-emax, emax); v.im = NZ; break;
    case C_IMAX: v.re = r.coin() ? NZ : 0.0; v.im = signed_by(r, r.logmag(-emax, emax)); break;
    case C_GAUSS: v.re = r.gauss(); v.im = r.gauss(); break;
    case C_LOG: { double m = r.logmag(-emax, emax), ph = r.uni(-M_PI, M_PI); v.re = m * std::cos(ph); v.im = m * std::sin(ph); break; }
    case C_MIXED: v.re = signed_by(r, r.logmag(-emax, emax)); v.im = signed_by(r, r.logmag(-emax, emax)); break;
    case C_NEARNEG: { double m = r.logmag(-std::min(emax, 60.0), emax); v.re = -m; v.im = signed_by(r, m * r.logmag(-40, -1)); break; }
    case C_EXPDOM: {
        int a = r.range(0, 3), b = r.range(0, 3);
        v.re = a == 0 ? 0.0 : a == 1 ? NZ : a == 2 ? r.gauss() : r.uni(-700, 700);
        v.im = b == 0 ? (r.coin() ? 0.0 : NZ) : b == 1 ? r.gauss() : b == 2 ? gen_r(r, R_PIMULT) : r.uni(-100, 100);
        break;
    }
    case C_EXPBIG: v.re = r.uni(-700, 700); v.im = signed_by(r, r.logmag(0, 100)); break;
    case C_HALF: v.re = gen_r(r, R_HALF); v.im = gen_r(r, R_HALF); break;
    case C_K1000: v.re = r.gauss() * 1000; v.im = r.gauss() * 1000; break;
    case C_NEARPOLE: v.re = r.gauss() * r.logmag(-18, 0); v.im = (r.range(-3, 3) + 0.5) * M_PI + r.gauss() * r.logmag(-18, -1); break;
    }
    return v;
}

bool neg_axis(Val x) { return x.im == 0 && (x.re < 0 || (x.re == 0 && std::signbit(x.re))); }

// ------------------------------------------------------------------------------------------- element-wise table
struct EFn
{
    std::string name;
    bool cin;                                                         // complex argument
    std::vector<int> cls;                                             // admissible argument classes (the function's domain)
    std::function<std::vector<Val>(const std::vector<Val>&)> arr;     // library, array form
    std::function<Val(Val)> sc;                                       // library, scalar form (may be empty)
    std::function<cld(Val)> ref;                                      // extended-precision definition
    std::function<ld(Val, cld)> tol;                                  // absolute tolerance
    std::function<bool(Val, Val)> alt;                                // additional accepted answers (conventions), may be empty
};

ld tol_rel8(Val, cld r) { return 8 * ld(EPS) * std::abs(r) + TINY; }
ld tol_exact(Val, cld) { return 0; }
// complex tanh is a quotient of two expressions of real elementary functions: two element-wise budgets (glibc ctanh measures <= 2.9 eps)
ld tol_rel16(Val, cld r) { return 16 * ld(EPS) * std::abs(r) + TINY; }
// 10^(v/k): the quotient v/k is rounded once before the exponentiation; d(10^t)/dt * t = ln(ref) => + 2 |ln ref| eps (4x the half-ulp)
ld tol_exp10(Val, cld r) { ld a = std::abs(r); return (8 + 2 * std::fabs(logl(a))) * ld(EPS) * a + TINY; }

cld ref_tanh(cld z) {
    // tanh(x+iy) = (tanh x + i sin y cos y sech^2 x) / (tanh^2 x + cos^2 y sech^2 x): no cancellation, no overflow
    const ld x = z.real(), y = z.imag();
    const ld t = tanhl(x), ch = coshl(x);
    const ld s2 = std::isinf(ch) ? 0 : 1 / (ch * ch);
    const ld sy = sinl(y), cy = cosl(y);
    const ld den = t * t + cy * cy * s2;
    return cld(t / den, sy * cy * s2 / den);
}

std::vector<EFn> build_efns() {
    std::vector<EFn> t;
    auto RR = [&](const char* name, std::vector<int> cls, std::function<arr_real(const arr_real&)> fa, std::function<real_t(real_t)> fs, std::function<ld(ld)> ref,
                  std::function<ld(Val, cld)> tol) {
        EFn f;
        f.name = name; f.cin = false; f.cls = std::move(cls);
        f.arr = [fa](const std::vector<Val>& v) { return VR(fa(AR(v))); };
        if (fs) f.sc = [fs](Val v) { Val o; o.re = fs(v.re); return o; };
        f.ref = [ref](Val v) { return cld(ref(ld(v.re)), 0); };
        f.tol = std::move(tol);
        t.push_back(std::move(f));
    };
    auto CR = [&](const char* name, std::vector<int> cls, std::function<arr_real(const arr_cmplx&)> fa, std::function<real_t(cmplx_t)> fs, std::function<ld(cld)> ref,
                  std::function<ld(Val, cld)> tol) {
        EFn f;
        f.name = name; f.cin = true; f.cls = std::move(cls);
        f.arr = [fa](const std::vector<Val>& v) { return VR(fa(AC(v))); };
        if (fs) f.sc = [fs](Val v) { Val o; o.re = fs(cmplx_t(v.re, v.im)); return o; };
        f.ref = [ref](Val v) { return cld(ref(C(v)), 0); };
        f.tol = std::move(tol);
        t.push_back(std::move(f));
    };
    auto CC = [&](const char* name, std::vector<int> cls, std::function<arr_cmplx(const arr_cmplx&)> fa, std::function<cmplx_t(cmplx_t)> fs, std::function<cld(cld)> ref,
                  std::function<ld(Val, cld)> tol) {
        EFn f;
        f.name = name; f.cin = true; f.cls = std::move(cls);
        f.arr = [fa](const std::vector<Val>& v) { return VC(fa(AC(v))); };
        if (fs) f.sc = [fs](Val v) { cmplx_t y = fs(cmplx_t(v.re, v.im)); Val o; o.re = y.re; o.im = y.im; return o; };
        f.ref = [ref](Val v) { return ref(C(v)); };
        f.tol = std::move(tol);
        t.push_back(std::move(f));
    };
    auto RC = [&](const char* name, std::vector<int> cls, std::function<arr_cmplx(const arr_real&)> fa, std::function<cmplx_t(real_t)> fs, std::function<cld(ld)> ref,
                  std::function<ld(Val, cld)> tol) {
        EFn f;
        f.name = name; f.cin = false; f.cls = std::move(cls);
        f.arr = [fa](const std::vector<Val>& v) { return VC(fa(AR(v))); };
        if (fs) f.sc = [fs](Val v) { cmplx_t y = fs(v.re); Val o; o.re = y.re; o.im = y.im; return o; };
        f.ref = [ref](Val v) { return ref(ld(v.re)); };
        f.tol = std::move(tol);
        t.push_back(std::move(f));
    };
    const std::vector<int> anyreal = {R_ZERO, R_NZERO, R_ONE, R_MONE, R_INT, R_GAUSS, R_LOGPOS, R_LOGNEG, R_LOGSIGNED};
    const std::vector<int> posreal = {R_ONE, R_ABSGAUSS, R_LOGPOS, R_NEAR1};
    const std::vector<int> anycx = {C_ZERO4, C_UNITS, C_POSAX, C_NEGAX_P, C_NEGAX_M, C_IMAX, C_GAUSS, C_LOG, C_MIXED, C_NEARNEG};

    RR("abs(real)", anyreal, [](const arr_real& x) { return dsplib::abs(x); }, [](real_t v) { return dsplib::abs(v); }, [](ld v) { return fabsl(v); }, tol_exact);
    RR("abs2(real)", anyreal, [](const arr_real& x) { return dsplib::abs2(x); }, [](real_t v) { return dsplib::abs2(v); }, [](ld v) { return v * v; }, tol_rel8);
    RR("exp(real)", {R_ZERO, R_NZERO, R_ONE, R_MONE, R_GAUSS, R_U700, R_LOG700}, [](const arr_real& x) { return dsplib::exp(x); }, [](real_t v) { return dsplib::exp(v); },
       [](ld v) { return expl(v); }, tol_rel8);
    RR("log", posreal, [](const arr_real& x) { return dsplib::log(x); }, [](real_t v) { return dsplib::log(v); }, [](ld v) { return logl(v); }, tol_rel8);
    RR("log2", posreal, [](const arr_real& x) { return dsplib::log2(x); }, [](real_t v) { return dsplib::log2(v); }, [](ld v) { return log2l(v); }, tol_rel8);
    RR("log10", posreal, [](const arr_real& x) { return dsplib::log10(x); }, [](real_t v) { return dsplib::log10(v); }, [](ld v) { return log10l(v); }, tol_rel8);
    RR("tanh(real)", anyreal, [](const arr_real& x) { return dsplib::tanh(x); }, nullptr, [](ld v) { return tanhl(v); }, tol_rel8);
    RR("round(real)", {R_ZERO, R_NZERO, R_INT, R_HALF, R_GAUSS, R_K1000, R_LOGPOS, R_LOGNEG}, [](const arr_real& x) { return dsplib::round(x); },
       [](real_t v) { return dsplib::round(v); }, [](ld v) { return roundl(v); }, tol_exact);
    RR("pow2db", posreal, [](const arr_real& x) { return dsplib::pow2db(x); }, [](real_t v) { return dsplib::pow2db(v); }, [](ld v) { return 10 * log10l(v); }, tol_rel8);
    RR("mag2db", posreal, [](const arr_real& x) { return dsplib::mag2db(x); }, [](real_t v) { return dsplib::mag2db(v); }, [](ld v) { return 20 * log10l(v); }, tol_rel8);
    RR("db2pow", {R_ZERO, R_NZERO, R_ONE, R_MONE, R_INT, R_DB, R_DBSMALL}, [](const arr_real& x) { return dsplib::db2pow(x); }, [](real_t v) { return dsplib::db2pow(v); },
       [](ld v) { return powl(10, v / 10); }, tol_exp10);
    RR("db2mag", {R_ZERO, R_NZERO, R_ONE, R_MONE, R_INT, R_DB, R_DBSMALL}, [](const arr_real& x) { return dsplib::db2mag(x); }, [](real_t v) { return dsplib::db2mag(v); },
       [](ld v) { return powl(10, v / 20); }, tol_exp10);
    {
        auto cls = anyreal;
        cls.push_back(R_DEG);
        RR("deg2rad", cls, [](const arr_real& x) { return dsplib::deg2rad(x); }, [](real_t v) { return dsplib::deg2rad(v); }, [](ld v) { return v * PI_L / 180; }, tol_rel8);
        cls.back() = R_PIMULT;
        RR("rad2deg", cls, [](const arr_real& x) { return dsplib::rad2deg(x); }, [](real_t v) { return dsplib::rad2deg(v); }, [](ld v) { return v * 180 / PI_L; }, tol_rel8);
    }
    RR("conj(real)", anyreal, [](const arr_real& x) { return dsplib::conj(x); }, [](real_t v) { return dsplib::conj(v); }, [](ld v) { return v; }, tol_exact);
    RC("expj", {R_ZERO, R_NZERO, R_ONE, R_MONE, R_GAUSS, R_PIMULT, R_LOGSIGNED}, [](const arr_real& x) { return dsplib::expj(x); }, [](real_t v) { return dsplib::expj(v); },
       [](ld v) { return cld(cosl(v), sinl(v)); }, tol_rel8);
    RC("complex(re)", anyreal, [](const arr_real& x) { return dsplib::complex(x); }, nullptr, [](ld v) { return cld(v, 0); }, tol_exact);

    CR("abs(cmplx)", anycx, [](const arr_cmplx& x) { return dsplib::abs(x); }, [](cmplx_t v) { return dsplib::abs(v); }, [](cld z) { return hypotl(z.real(), z.imag()); }, tol_rel8);
    CR("abs2(cmplx)", anycx, [](const arr_cmplx& x) { return dsplib::abs2(x); }, [](cmplx_t v) { return dsplib::abs2(v); },
       [](cld z) { return z.real() * z.real() + z.imag() * z.imag(); }, tol_rel8);
    CR("angle", anycx, [](const arr_cmplx& x) { return dsplib::angle(x); }, [](cmplx_t v) { return dsplib::angle(v); }, [](cld z) { return atan2l(z.imag(), z.real()); }, tol_rel8);
    // conventions on the cut: (-pi, pi] says +pi, IEEE atan2 says -pi for im = -0; both accepted exactly on the negative real
    // axis when im = -0 (im = +0 must give +pi); for re = -0 the value 0 is accepted as well: angle(0) = 0
    t.back().alt = [](Val x, Val got) {
        if (!neg_axis(x)) return false;
        if (x.re == 0 && got.re == 0) return true;                   // angle(0) = 0 also for re = -0
        if (!std::signbit(x.im) && got.re < 0) return false;         // im = +0: +pi in both conventions
        return std::fabs(ld(std::fabs(got.re)) - PI_L) <= 8 * ld(EPS) * PI_L;
    };
    CR("real", anycx, [](const arr_cmplx& x) { return dsplib::real(x); }, [](cmplx_t v) { return dsplib::real(v); }, [](cld z) { return z.real(); }, tol_exact);
    CR("imag", anycx, [](const arr_cmplx& x) { return dsplib::imag(x); }, [](cmplx_t v) { return dsplib::imag(v); }, [](cld z) { return z.imag(); }, tol_exact);
    CC("conj(cmplx)", anycx, [](const arr_cmplx& x) { return dsplib::conj(x); }, [](cmplx_t v) { return dsplib::conj(v); }, [](cld z) { return std::conj(z); }, tol_exact);
    CC("exp(cmplx)", {C_ZERO4, C_UNITS, C_GAUSS, C_EXPDOM, C_EXPBIG}, [](const arr_cmplx& x) { return dsplib::exp(x); }, [](cmplx_t v) { return dsplib::exp(v); },
       [](cld z) { return expl(z.real()) * cld(cosl(z.imag()), sinl(z.imag())); }, tol_rel8);
    CC("tanh(cmplx)", {C_ZERO4, C_UNITS, C_POSAX, C_NEGAX_P, C_NEGAX_M, C_IMAX, C_GAUSS, C_LOG, C_MIXED, C_EXPDOM, C_NEARPOLE}, [](const arr_cmplx& x) { return dsplib::tanh(x); },
       nullptr, ref_tanh, tol_rel16);
    CC("round(cmplx)", {C_ZERO4, C_UNITS, C_GAUSS, C_HALF, C_K1000, C_MIXED}, [](const arr_cmplx& x) { return dsplib::round(x); }, [](cmplx_t v) { return dsplib::round(v); },
       [](cld z) { return cld(roundl(z.real()), roundl(z.imag())); }, tol_exact);
    return t;
}
const std::vector<EFn>& efns() {
    static const std::vector<EFn> t = build_efns();
    return t;
}
const EFn* find_efn(const std::string& name) {
    for (auto& f : efns()) if (f.name == name) return &f;
    return nullptr;
}
bool benign_r(int c) { return c == R_ONE || c == R_INT || c == R_GAUSS || c == R_ABSGAUSS || c == R_K1000; }
bool benign_c(int c) { return c == C_GAUSS || c == C_K1000; }

}   // namespace

// =========================================================================================== element-wise functions
VK_SUB(ew, "elementwise");
static void ew_check(const Json& c, Out& o) {
    const EFn* f = find_efn(c.gets("fn"));
    if (!f) throw std::runtime_error("unknown function " + c.gets("fn"));
    const int cls = c.geti("cls"), n = c.geti("n");
    Rng r(c.getu("seed"));
    std::vector<Val> x(static_cast<size_t>(n));
    for (auto& v : x) { if (f->cin) v = gen_c(r, cls); else v.re = gen_r(r, cls); }
    const char* cname = f->cin ? CNAME[cls] : RNAME[cls];
    std::vector<Val> ya = f->arr(x);
    if (int(ya.size()) != n) { o.fail(f->name + ":size", fmt("%s of %d elements returned %zu", f->name.c_str(), n, ya.size())); return; }
    double worst = 0;
    bool conv = false;
    for (int form = 0; form < (f->sc ? 2 : 1); ++form) {
        for (int i = 0; i < n; ++i) {
            const Val xi = x[size_t(i)];
            const Val g = form == 0 ? ya[size_t(i)] : f->sc(xi);
            const cld ref = f->ref(xi);
            const ld tol = f->tol(xi, ref);
            const ld e = std::abs(cld(g.re, g.im) - ref);
            const bool fin = std::isfinite(g.re) && std::isfinite(g.im);
            bool ok = fin && e <= tol;
            if (!ok && fin && f->alt && f->alt(xi, g)) { ok = true; conv = true; }
            if (ok && tol > 0 && e <= tol) worst = std::max(worst, double(e / tol));
            if (!ok) {
                o.fail(f->name + ":" + cname, fmt("%s %s(%.17g%+.17gi) = %.17g%+.17gi, reference %.20Lg%+.20Lgi, |err| %.3Lg > tol %.3Lg", form ? "scalar" : "array", f->name.c_str(),
                                                  xi.re, xi.im, g.re, g.im, ref.real(), ref.imag(), e, tol));
                break;
            }
        }
    }
    o.metric("err/tol " + f->name, worst);
    if (conv) o.label("accepted-convention:" + f->name + " on the cut with im=-0 / re=-0");
    o.evals = f->sc ? 2L * n : n;
    if (!(f->cin ? benign_c(cls) : benign_r(cls))) o.nontrivial(key_of(hash_str(f->name), cls, n));
    o.label("fn:" + f->name);
    o.label(std::string(f->cin ? "cclass:" : "rclass:") + cname);
    o.label(len_class(n));
}
static void ew_gen(Ctx& ctx) {
    static const int lens[] = {1, 2, 3, 4, 7, 16, 100, 1000};
    for (auto& f : efns())
        for (int cls : f.cls)
            for (int n : lens)
                for (int rep = 0; rep < ctx.by_tier(4, 16); ++rep) {
                    if (!ctx.mine()) continue;
                    ctx.eval(Json::object().set("fn", f.name).set("cls", cls).set("n", n).set("seed", (long long)(mix(ctx.seed, key_of(hash_str(f.name), cls, n, rep)) >> 16)));
                }
    ctx.rc("random", ctx.by_tier(1000000, 10000000), [&]() {
        const EFn& f = efns()[size_t(pick(0, int(efns().size()) - 1))];
        int cls = f.cls[size_t(pick(0, int(f.cls.size()) - 1))];
        return Json::object().set("fn", f.name).set("cls", cls).set("n", pick_log(1, 1000)).set("seed", (long long)seed64());
    });
}

// =========================================================================================== power, every overload
namespace {
enum Ov { OV_RS_RS, OV_CS_RS, OV_CS_RV, OV_RS_RV, OV_RV_RV, OV_CV_RV, OV_RV_RS, OV_CV_RS, OV_RS_I, OV_CS_I, OV_RV_I, OV_CV_I, OV_N };
const char* const OVNAME[] = {"power(real,real)", "power(cmplx,real)", "power(cmplx,arr_real)", "power(real,arr_real)", "power(arr_real,arr_real)", "power(arr_cmplx,arr_real)",
                              "power(arr_real,real)", "power(arr_cmplx,real)", "power(real,int)", "power(cmplx,int)", "power(arr_real,int)", "power(arr_cmplx,int)"};
bool ov_cbase(int ov) { return ov == OV_CS_RS || ov == OV_CS_RV || ov == OV_CV_RV || ov == OV_CV_RS || ov == OV_CS_I || ov == OV_CV_I; }
bool ov_sbase(int ov) { return ov == OV_RS_RS || ov == OV_CS_RS || ov == OV_CS_RV || ov == OV_RS_RV || ov == OV_RS_I || ov == OV_CS_I; }
bool ov_sexp(int ov) { return ov != OV_CS_RV && ov != OV_RS_RV && ov != OV_RV_RV && ov != OV_CV_RV; }
bool ov_iexp(int ov) { return ov >= OV_RS_I; }
// real base classes
enum PB { PB_LOGPOS, PB_ABSGAUSS, PB_ONE, PB_NEAR1, PB_NEGLOG, PB_MONE, PB_NEGGAUSS, PB_ZERO, PB_NZERO, PB_N };
const char* const PBNAME[] = {"10^U(-100,100)", "|gauss|", "+1", "1+tiny", "-10^U(-100,100)", "-1", "-|gauss|", "+0", "-0"};
const int PB_CX[] = {C_ZERO4, C_UNITS, C_POSAX, C_NEGAX_P, C_NEGAX_M, C_IMAX, C_GAUSS, C_LOG, C_MIXED, C_NEARNEG};
enum EC { E_INT, E_FRAC, E_SPECIAL, E_N };
const char* const ECNAME[] = {"integer", "fractional", "special-fraction"};

Val gen_pbase(Rng& r, bool cx, int bcls, double emax) {
    if (cx) return gen_c(r, bcls, emax);
    Val v;
    switch (bcls) {
    case PB_LOGPOS: v.re = r.logmag(-emax, emax); break;
    case PB_ABSGAUSS: v.re = gen_r(r, R_ABSGAUSS); break;
    case PB_ONE: v.re = 1; break;
    case PB_NEAR1: v.re = gen_r(r, R_NEAR1); break;
    case PB_NEGLOG: v.re = -r.logmag(-emax, emax); break;
    case PB_MONE: v.re = -1; break;
    case PB_NEGGAUSS: v.re = -gen_r(r, R_ABSGAUSS); break;
    case PB_ZERO: v.re = 0.0; break;
    case PB_NZERO: v.re = NZ; break;
    }
    return v;
}
bool base_is_zero_class(bool cx, int bcls) { return cx ? bcls == C_ZERO4 : (bcls == PB_ZERO || bcls == PB_NZERO); }
bool base_needs_int(bool cx, int bcls) { return !cx && (bcls == PB_NEGLOG || bcls == PB_MONE || bcls == PB_NEGGAUSS || bcls == PB_NZERO); }
double gen_exp(Rng& r, int ecls, double pmax, bool need_int, bool need_pos) {
    double p = 0;
    if (need_int || ecls == E_INT) {
        int m = int(std::floor(pmax));
        p = double(r.range(-m, m));
    } else if (ecls == E_FRAC) {
        p = r.uni(-pmax, pmax);
    } else {
        static const double sp[] = {0.5, -0.5, 1.0 / 3, -1.0 / 3, 0.25, 1.5, -1.5, 2.5, 0.1, -0.1, 7.5, -7.5, 2.0 / 3, 1e-3, -1e-3, 0.75};
        for (int k = 0; k < 20; ++k) { p = sp[r.range(0, 15)]; if (std::fabs(p) <= pmax) break; p = pmax * 0.5; }
    }
    if (need_pos) { p = std::fabs(p); if (p == 0) p = need_int || ecls == E_INT ? 1.0 : 0.5; }
    return p;
}
double pmax_for(Val x) {
    // |p log10|x|| <= 290 keeps the result inside the normal range
    ld m = hypotl(x.re, x.im);
    if (m == 0) return 8;
    ld L = std::fabs(log10l(m));
    return L * 8 <= 290 ? 8.0 : double(290 / L);
}
// reference z^p = exp(p Log z); second = alternative on the cut for im = -0 (atan2 convention), equal to first elsewhere
std::pair<cld, cld> ref_power(bool cx, Val x, double p) {
    if (!cx) { cld v(powl(ld(x.re), ld(p)), 0); return {v, v}; }
    const ld m = hypotl(x.re, x.im);
    if (m == 0) return {cld(0), cld(0)};
    const ld mp = powl(m, ld(p));
    if (x.im == 0 && x.re < 0) {
        const ld a = ld(p) * PI_L;
        const cld pv = mp * cld(cosl(a), sinl(a));
        return {pv, std::signbit(x.im) ? mp * cld(cosl(a), -sinl(a)) : pv};
    }
    const ld a = ld(p) * atan2l(x.im, x.re);
    cld v = mp * cld(cosl(a), sinl(a));
    return {v, v};
}
}   // namespace

VK_SUB(pw, "power");
static void pw_check(const Json& c, Out& o) {
    const int ov = c.geti("ov"), bcls = c.geti("bcls"), ecls = c.geti("ecls");
    int n = c.geti("n");
    const bool cx = ov_cbase(ov), sb = ov_sbase(ov), se = ov_sexp(ov), ie = ov_iexp(ov);
    if (sb && se) n = 1;
    Rng r(c.getu("seed"));
    const bool need_int = ie || base_needs_int(cx, bcls), need_pos = base_is_zero_class(cx, bcls);
    std::vector<Val> xs(static_cast<size_t>(n));
    std::vector<double> ps(static_cast<size_t>(n));
    if (se && !sb) {                       // one exponent, many bases
        double p = gen_exp(r, ecls, 8, need_int, need_pos);
        double emax = std::fabs(p) * 100 <= 290 ? 100 : 290 / std::fabs(p);
        if (cx) emax -= 0.2;               // |re|,|im| <= 10^emax => |z| <= sqrt(2) 10^emax
        for (int i = 0; i < n; ++i) { xs[size_t(i)] = gen_pbase(r, cx, bcls, emax); ps[size_t(i)] = p; }
    } else if (sb) {                       // one base, one or many exponents
        Val x = gen_pbase(r, cx, bcls, 100);
        double pm = pmax_for(x);
        for (int i = 0; i < n; ++i) { xs[size_t(i)] = x; ps[size_t(i)] = gen_exp(r, ecls, pm, need_int, need_pos); }
    } else {
        for (int i = 0; i < n; ++i) { xs[size_t(i)] = gen_pbase(r, cx, bcls, 100); ps[size_t(i)] = gen_exp(r, ecls, pmax_for(xs[size_t(i)]), need_int, need_pos); }
    }
    std::vector<Val> got;
    arr_real pa(n);
    for (int i = 0; i < n; ++i) pa[i] = ps[size_t(i)];
    const real_t p0 = ps[0];
    const int ip0 = int(ps[0]);
    const real_t xr0 = xs[0].re;
    const cmplx_t xc0(xs[0].re, xs[0].im);
    auto one = [](cmplx_t v) { Val o; o.re = v.re; o.im = v.im; return std::vector<Val>{o}; };
    auto oner = [](real_t v) { Val o; o.re = v; return std::vector<Val>{o}; };
    switch (ov) {
    case OV_RS_RS: got = oner(dsplib::power(xr0, p0)); break;
    case OV_CS_RS: got = one(dsplib::power(xc0, p0)); break;
    case OV_CS_RV: got = VC(dsplib::power(xc0, pa)); break;
    case OV_RS_RV: got = VR(dsplib::power(xr0, pa)); break;
    case OV_RV_RV: got = VR(dsplib::power(AR(xs), pa)); break;
    case OV_CV_RV: got = VC(dsplib::power(AC(xs), pa)); break;
    case OV_RV_RS: got = VR(dsplib::power(AR(xs), p0)); break;
    case OV_CV_RS: got = VC(dsplib::power(AC(xs), p0)); break;
    case OV_RS_I: got = oner(dsplib::power(xr0, ip0)); break;
    case OV_CS_I: got = one(dsplib::power(xc0, ip0)); break;
    case OV_RV_I: got = VR(dsplib::power(AR(xs), ip0)); break;
    case OV_CV_I: got = VC(dsplib::power(AC(xs), ip0)); break;
    default: throw std::runtime_error("bad overload");
    }
    const char* bname = cx ? CNAME[bcls] : PBNAME[bcls];
    if (int(got.size()) != n) { o.fail(std::string(OVNAME[ov]) + ":size", fmt("%s with %d elements returned %zu", OVNAME[ov], n, got.size())); return; }
    double worst = 0;
    bool all_two = true, conv = false;
    for (int i = 0; i < n; ++i) {
        const Val x = xs[size_t(i)], g = got[size_t(i)];
        const double p = ps[size_t(i)];
        all_two &= (p == 2);
        auto ref = ref_power(cx, x, p);
        const ld tol = (4 + std::fabs(ld(p)) * PI_L) * 4 * ld(EPS) * std::abs(ref.first) + TINY;
        const cld gc(g.re, g.im);
        const bool fin = std::isfinite(g.re) && std::isfinite(g.im);
        ld e = std::abs(gc - ref.first);
        if (fin && e > tol && std::abs(gc - ref.second) <= tol) { e = std::abs(gc - ref.second); conv = true; }
        if (!fin || !(e <= tol)) {
            o.fail(std::string(OVNAME[ov]) + ":" + bname, fmt("%s: (%.17g%+.17gi)^%.17g = %.17g%+.17gi, reference %.20Lg%+.20Lgi, |err| %.3Lg > tol %.3Lg", OVNAME[ov], x.re, x.im, p, g.re,
                                                             g.im, ref.first.real(), ref.first.imag(), e, tol));
            break;
        }
        worst = std::max(worst, double(e / tol));
    }
    o.metric(std::string("err/tol ") + (cx ? "power(cmplx base)" : "power(real base)"), worst);
    if (conv) o.label("accepted-convention:power on the cut with im=-0");
    o.evals = n;
    const bool benign_base = cx ? (bcls == C_GAUSS || bcls == C_UNITS) : (bcls == PB_ABSGAUSS || bcls == PB_ONE);
    if (!(benign_base && all_two)) o.nontrivial(key_of(ov, bcls, ecls, n));
    o.label(std::string("fn:") + OVNAME[ov]);
    o.label(std::string(cx ? "cbase:" : "rbase:") + bname);
    o.label(std::string("exponent:") + (need_int ? "integer" : ECNAME[ecls]));
    o.label(len_class(n));
}
static void pw_gen(Ctx& ctx) {
    static const int lens[] = {1, 2, 3, 8, 100};
    for (int ov = 0; ov < OV_N; ++ov) {
        const bool cx = ov_cbase(ov);
        const int nb = cx ? int(sizeof PB_CX / sizeof PB_CX[0]) : int(PB_N);
        for (int b = 0; b < nb; ++b)
            for (int ec = 0; ec < (ov_iexp(ov) ? 1 : int(E_N)); ++ec)
                for (int n : lens)
                    for (int rep = 0; rep < ctx.by_tier(8, 32); ++rep) {
                        if (ov_sbase(ov) && ov_sexp(ov) && n != 1 && n != 2 && n != 3) continue;   // scalar forms: n is ignored, keep 3 x rep draws
                        if (!ctx.mine()) continue;
                        int bcls = cx ? PB_CX[b] : b;
                        ctx.eval(Json::object().set("ov", ov).set("bcls", bcls).set("ecls", ec).set("n", n).set("seed", (long long)(mix(ctx.seed, key_of(ov, bcls, ec, n, rep)) >> 16)));
                    }
    }
    ctx.rc("random", ctx.by_tier(1000000, 10000000), [&]() {
        int ov = pick(0, OV_N - 1);
        const bool cx = ov_cbase(ov);
        int bcls = cx ? PB_CX[size_t(pick(0, int(sizeof PB_CX / sizeof PB_CX[0]) - 1))] : pick(0, PB_N - 1);
        int ec = ov_iexp(ov) ? 0 : pick(0, E_N - 1);
        int n = (ov_sbase(ov) && ov_sexp(ov)) ? 1 : pick_log(1, 1000);
        return Json::object().set("ov", ov).set("bcls", bcls).set("ecls", ec).set("n", n).set("seed", (long long)seed64());
    });
}

// =========================================================================================== reductions
namespace {
enum ACls { A_GAUSS, A_LOGSIGNED, A_LOGPOS, A_CONST, A_INTS, A_CANCEL, A_SPARSE, A_OFFSET, A_SPECIAL, A_N };
const char* const ANAME[] = {"gauss", "+-10^U(-100,100)", "10^U(-100,100)", "constant", "small integers", "cancelling pairs", "mostly signed zeros", "1e8+gauss", "0,-0,+-1"};
std::vector<Val> gen_arr(Rng& r, int n, int cls, bool cx, double emax = 100) {
    std::vector<Val> x(static_cast<size_t>(n));
    auto comp = [&](auto f) { for (auto& v : x) { v.re = f(); if (cx) v.im = f(); } };
    switch (cls) {
    case A_GAUSS: comp([&] { return r.gauss(); }); break;
    case A_LOGSIGNED: comp([&] { return signed_by(r, r.logmag(-emax, emax)); }); break;
    case A_LOGPOS: comp([&] { return r.logmag(-emax, emax); }); break;
    case A_CONST: { Val c; c.re = r.gauss() * r.logmag(-std::min(emax, 20.0), std::min(emax, 20.0)); if (cx) c.im = r.gauss(); for (auto& v : x) v = c; break; }
    case A_INTS: comp([&] { return double(r.range(-9, 9)); }); break;
    case A_CANCEL: {
        for (int i = 0; i + 1 < n; i += 2) {
            Val a; a.re = r.gauss() * r.logmag(-3, 3); if (cx) a.im = r.gauss() * r.logmag(-3, 3);
            x[size_t(i)] = a; x[size_t(i + 1)].re = -a.re; x[size_t(i + 1)].im = cx ? -a.im : 0.0;
        }
        if (n & 1) x[size_t(n - 1)].re = r.gauss() * 1e-3;
        for (int i = n - 1; i > 0; --i) std::swap(x[size_t(i)], x[size_t(r.range(0, i))]);
        break;
    }
    case A_SPARSE: comp([&] { int k = r.range(0, 9); return k == 0 ? r.gauss() : (k & 1) ? 0.0 : NZ; }); break;
    case A_OFFSET: comp([&] { return 1e8 + r.gauss(); }); break;
    case A_SPECIAL: comp([&] { static const double s[] = {0.0, NZ, 1.0, -1.0}; return s[r.range(0, 3)]; }); break;
    }
    return x;
}
ld sum_abs(const std::vector<Val>& x) { ld s = 0; for (auto& v : x) s += hypotl(v.re, v.im); return s; }
struct Red
{
    Out& o;
    const char* kind;   // "real" / "cmplx"
    int n;
    const char* cname;
    std::map<std::string, double> mx;
    void flush() { for (auto& kv : mx) o.metric(kv.first, kv.second); }
    void cmp(const std::string& fn, cld got, cld ref, ld tol, const std::string& extra = "") {
        const ld e = std::abs(got - ref);
        const bool fin = std::isfinite(double(got.real())) && std::isfinite(double(got.imag()));
        if (fin && e <= tol) { double& m = mx["err/tol " + fn]; m = std::max(m, tol > 0 ? double(e / tol) : 0.0); return; }
        o.fail(fn + ":" + kind, fmt("%s(%s, n=%d, class %s)%s = %.17Lg%+.17Lgi, reference %.20Lg%+.20Lgi, |err| %.3Lg > tol %.3Lg", fn.c_str(), kind, n, cname, extra.c_str(), got.real(),
                                    got.imag(), ref.real(), ref.imag(), e, tol));
    }
};
}   // namespace

VK_SUB(red, "reductions");
static void red_check(const Json& c, Out& o) {
    const bool cx = c.geti("cx") != 0;
    const int cls = c.geti("cls"), n = c.geti("n"), p = c.geti("p");
    Rng r(c.getu("seed"));
    const std::vector<Val> x = gen_arr(r, n, cls, cx);
    const std::vector<Val> y = gen_arr(r, n, c.geti("cls2"), cx);
    Red R{o, cx ? "cmplx" : "real", n, ANAME[cls]};
    const ld E = EPS, N = n;
    const ld sa = sum_abs(x);
    // references
    cld s = 0;
    std::vector<cld> cf(static_cast<size_t>(n)), cr(static_cast<size_t>(n));
    std::vector<ld> af(static_cast<size_t>(n)), ab(static_cast<size_t>(n));
    { cld a = 0; ld t = 0; for (int i = 0; i < n; ++i) { a += C(x[size_t(i)]); t += std::abs(C(x[size_t(i)])); cf[size_t(i)] = a; af[size_t(i)] = t; } s = a; }
    { cld a = 0; ld t = 0; for (int i = n - 1; i >= 0; --i) { a += C(x[size_t(i)]); t += std::abs(C(x[size_t(i)])); cr[size_t(i)] = a; ab[size_t(i)] = t; } }
    const cld mean = s / N;
    ld ss = 0, dev = 0;
    for (auto& v : x) { ss += std::norm(C(v)); dev += std::norm(C(v) - mean); }
    const ld rms = sqrtl(ss / N), sd = n >= 2 ? sqrtl(dev / (N - 1)) : 0;
    cld dt = 0; ld dta = 0;
    for (int i = 0; i < n; ++i) { dt += C(x[size_t(i)]) * C(y[size_t(i)]); dta += std::abs(C(x[size_t(i)])) * std::abs(C(y[size_t(i)])); }
    auto tc = [](cmplx_t v) { return cld(v.re, v.im); };
    long ev = 0;
    if (!cx) {
        const arr_real a = AR(x), b = AR(y);
        R.cmp("sum", dsplib::sum(a), s, 4 * N * E * sa); ++ev;
        R.cmp("mean", dsplib::mean(a), mean, 4 * N * E * sa / N); ++ev;
        R.cmp("rms", dsplib::rms(a), rms, (4 * N + 4) * E * rms); ++ev;
        if (n >= 2) { R.cmp("stddev", dsplib::stddev(a), sd, 4 * N * E * sd + 4 * E * sa); ++ev; }
        R.cmp("dot", dsplib::dot(a, b), dt, (4 * N + 4) * E * dta); ++ev;
        R.cmp("dot(x, x) same object", dsplib::dot(a, a), ss, (4 * N + 4) * E * ss); ++ev;   // both arguments the SAME array object
        R.cmp("norm(p=1)", dsplib::norm(a, 1), sa, (4 * N + 8) * E * sa); ++ev;
        R.cmp("norm(p=2)", dsplib::norm(a, 2), sqrtl(ss), (4 * N + 8) * E * sqrtl(ss)); ++ev;
        R.cmp("norm(default)", dsplib::norm(a), sqrtl(ss), (4 * N + 8) * E * sqrtl(ss)); ++ev;
        arr_real f = dsplib::cumsum(a), f2 = dsplib::cumsum(a, dsplib::Direction::Forward), b2 = dsplib::cumsum(a, dsplib::Direction::Reverse);
        if (f.size() != n || f2.size() != n || b2.size() != n) { o.fail("cumsum:size", fmt("cumsum of %d elements returned %d/%d/%d", n, f.size(), f2.size(), b2.size())); return; }
        for (int i = 0; i < n && !o.failed; ++i) {
            R.cmp("cumsum(forward)", f[i], cf[size_t(i)], 4 * ld(i + 1) * E * af[size_t(i)], fmt("[%d]", i));
            R.cmp("cumsum(forward)", f2[i], cf[size_t(i)], 4 * ld(i + 1) * E * af[size_t(i)], fmt("[%d]", i));
            R.cmp("cumsum(reverse)", b2[i], cr[size_t(i)], 4 * ld(n - i) * E * ab[size_t(i)], fmt("[%d]", i));
        }
        ev += 3;
        std::vector<bool> bits(static_cast<size_t>(n));
        int cnt = 0;
        for (int i = 0; i < n; ++i) { bits[size_t(i)] = x[size_t(i)].re > 0; cnt += bits[size_t(i)]; }
        if (dsplib::sum(bits) != cnt) o.fail("sum(vector<bool>)", fmt("counted %d of %d", dsplib::sum(bits), cnt));
        ++ev;
    } else {
        const arr_cmplx a = AC(x), b = AC(y);
        R.cmp("sum", tc(dsplib::sum(a)), s, 4 * N * E * sa); ++ev;
        R.cmp("mean", tc(dsplib::mean(a)), mean, 4 * N * E * sa / N); ++ev;
        R.cmp("rms", dsplib::rms(a), rms, (4 * N + 4) * E * rms); ++ev;
        if (n >= 2) { R.cmp("stddev", dsplib::stddev(a), sd, 4 * N * E * sd + 4 * E * sa); ++ev; }
        R.cmp("dot", tc(dsplib::dot(a, b)), dt, (4 * N + 4) * E * dta); ++ev;   // sum x1[i] x2[i], no conjugation (code, unit test FFT.CztDft)
        { cld dxx = 0; for (int i = 0; i < n; ++i) dxx += C(x[size_t(i)]) * C(x[size_t(i)]);   // sum x[i]^2 (no conjugation), NOT the energy
          R.cmp("dot(x, x) same object", tc(dsplib::dot(a, a)), dxx, (4 * N + 4) * E * ss); ++ev; }
        R.cmp("norm(p=1)", dsplib::norm(a, 1), sa, (4 * N + 8) * E * sa); ++ev;
        R.cmp("norm(p=2)", dsplib::norm(a, 2), sqrtl(ss), (4 * N + 8) * E * sqrtl(ss)); ++ev;
        R.cmp("norm(default)", dsplib::norm(a), sqrtl(ss), (4 * N + 8) * E * sqrtl(ss)); ++ev;
        arr_cmplx f = dsplib::cumsum(a), b2 = dsplib::cumsum(a, dsplib::Direction::Reverse);
        if (f.size() != n || b2.size() != n) { o.fail("cumsum:size", fmt("cumsum of %d elements returned %d/%d", n, f.size(), b2.size())); return; }
        for (int i = 0; i < n && !o.failed; ++i) {
            R.cmp("cumsum(forward)", tc(f[i]), cf[size_t(i)], 4 * ld(i + 1) * E * af[size_t(i)], fmt("[%d]", i));
            R.cmp("cumsum(reverse)", tc(b2[i]), cr[size_t(i)], 4 * ld(n - i) * E * ab[size_t(i)], fmt("[%d]", i));
        }
        ev += 2;
    }
    // norm p >= 3 on a magnitude-limited vector: n |x|^p must stay finite
    if (p >= 3) {
        const double emax = std::min(100.0, 302.0 / p);
        const std::vector<Val> z = gen_arr(r, n, cls, cx, emax);
        ld acc = 0;
        for (auto& v : z) acc += powl(hypotl(v.re, v.im), ld(p));
        const ld ref = powl(acc, 1 / ld(p));
        // composition: |x|^p (8 p eps) -> sum (4 n eps) -> ^(1/p) with the exponent 1/p rounded once (|ln ref| eps, taken 2x)
        const ld tol = (4 * N + 16 + 2 * (ref > 0 ? std::fabs(logl(ref)) : 0)) * E * ref;
        const double got = cx ? dsplib::norm(AC(z), p) : dsplib::norm(AR(z), p);
        R.cmp("norm(p>=3)", got, ref, tol, fmt(" p=%d", p));
        ++ev;
        o.label(fmt("norm-p:%d", p));
    }
    R.flush();
    o.evals = ev;
    if (n <= 3 || (cls != A_GAUSS && cls != A_INTS)) o.nontrivial(key_of(int(cx), cls, n, c.geti("cls2"), p));
    o.label(std::string("input:") + R.kind + " " + ANAME[cls]);
    o.label(len_class(n));
}
static void red_gen(Ctx& ctx) {
    for (int cx = 0; cx < 2; ++cx)
        for (int cls = 0; cls < A_N; ++cls)
            for (int n = 1; n <= 40; ++n)
                for (int p = 0; p <= 8; p += (p == 0 ? 3 : 1)) {
                    if (!ctx.mine()) continue;
                    ctx.eval(Json::object().set("cx", cx).set("cls", cls).set("cls2", (cls + n) % A_N).set("n", n).set("p", p).set("seed", (long long)(mix(ctx.seed, key_of(cx, cls, n, p)) >> 16)));
                }
    ctx.rc("random", ctx.by_tier(800000, 8000000), [&]() {
        int p = pick(0, 6);
        p = p == 0 ? 0 : p + 2;
        return Json::object().set("cx", pick(0, 1)).set("cls", pick(0, A_N - 1)).set("cls2", pick(0, A_N - 1)).set("n", pick_log(1, 1000)).set("p", p).set("seed", (long long)seed64());
    });
}

// =========================================================================================== min / max / argmin / argmax / peak2peak
namespace {
enum MCls { M_GAUSS, M_INTS, M_CONST, M_LOG, M_SPECIAL, M_UNITS, M_CONJ, M_DUP, M_N };
const char* const MNAME[] = {"gauss", "small integers (ties)", "constant (all tie)", "+-10^U(-100,100)", "0,-0,+-1", "+-1,+-i (equal magnitude)", "conjugate pairs (equal magnitude)", "duplicates"};
std::vector<Val> gen_mm(Rng& r, int n, int cls, bool cx) {
    switch (cls) {
    case M_GAUSS: return gen_arr(r, n, A_GAUSS, cx);
    case M_INTS: { auto x = gen_arr(r, n, A_INTS, cx); for (auto& v : x) { v.re = std::fmod(v.re, 4); v.im = std::fmod(v.im, 4); } return x; }
    case M_CONST: return gen_arr(r, n, A_CONST, cx);
    case M_LOG: return gen_arr(r, n, A_LOGSIGNED, cx);
    case M_SPECIAL: return gen_arr(r, n, A_SPECIAL, cx);
    case M_UNITS: { std::vector<Val> x(static_cast<size_t>(n)); for (auto& v : x) { v = gen_c(r, C_UNITS); if (!cx) { v.re = r.coin() ? 1 : -1; v.im = 0; } } return x; }
    case M_CONJ: {
        auto x = gen_arr(r, n, A_GAUSS, cx);
        for (int i = 0; i + 1 < n; i += 2) { x[size_t(i + 1)].re = cx ? x[size_t(i)].re : -x[size_t(i)].re; x[size_t(i + 1)].im = -x[size_t(i)].im; }
        return x;
    }
    default: {
        auto x = gen_arr(r, n, A_GAUSS, cx);
        for (int i = 1; i < n; ++i) if (r.range(0, 2) == 0) x[size_t(i)] = x[size_t(r.range(0, i - 1))];
        return x;
    }
    }
}
}   // namespace

VK_SUB(mm, "minmax");
static void mm_check(const Json& c, Out& o) {
    const bool cx = c.geti("cx") != 0;
    const int cls = c.geti("cls"), n = c.geti("n");
    Rng r(c.getu("seed"));
    const std::vector<Val> x = gen_mm(r, n, cls, cx);
    const char* kind = cx ? "cmplx" : "real";
    bool ties = false;
    if (!cx) {
        const arr_real a = AR(x);
        double mx = x[0].re, mn = x[0].re;
        for (auto& v : x) { mx = std::max(mx, v.re); mn = std::min(mn, v.re); }
        int cmx = 0, cmn = 0;
        for (auto& v : x) { cmx += v.re == mx; cmn += v.re == mn; }
        ties = cmx > 1 || cmn > 1;
        const double gmx = dsplib::max(a), gmn = dsplib::min(a), gpp = dsplib::peak2peak(a);
        const int imx = dsplib::argmax(a), imn = dsplib::argmin(a);
        if (!(gmx == mx)) o.fail("max:real", fmt("max = %.17g, reference %.17g (n=%d, %s)", gmx, mx, n, MNAME[cls]));
        if (!(gmn == mn)) o.fail("min:real", fmt("min = %.17g, reference %.17g (n=%d, %s)", gmn, mn, n, MNAME[cls]));
        if (imx < 0 || imx >= n || !(x[size_t(imx)].re == mx)) o.fail("argmax:real", fmt("argmax = %d does not address the maximum %.17g (n=%d, %s)", imx, mx, n, MNAME[cls]));
        if (imn < 0 || imn >= n || !(x[size_t(imn)].re == mn)) o.fail("argmin:real", fmt("argmin = %d does not address the minimum %.17g (n=%d, %s)", imn, mn, n, MNAME[cls]));
        const ld pp = ld(mx) - ld(mn);
        if (!(std::fabs(ld(gpp) - pp) <= ld(EPS) * std::fabs(pp))) o.fail("peak2peak:real", fmt("peak2peak = %.17g, reference %.20Lg (n=%d, %s)", gpp, pp, n, MNAME[cls]));
    } else {
        // ordering by magnitude (cmplx_t::operator<); magnitudes within 4 eps of the extreme are ties
        const arr_cmplx a = AC(x);
        std::vector<ld> m2(static_cast<size_t>(n));
        ld M = 0, m = HUGE_VALL;
        for (int i = 0; i < n; ++i) { m2[size_t(i)] = std::norm(C(x[size_t(i)])); M = std::max(M, m2[size_t(i)]); m = std::min(m, m2[size_t(i)]); }
        auto is_max = [&](int i) { return m2[size_t(i)] >= M * (1 - 4 * ld(EPS)); };
        auto is_min = [&](int i) { return m2[size_t(i)] <= m * (1 + 4 * ld(EPS)); };
        int cmx = 0, cmn = 0;
        for (int i = 0; i < n; ++i) { cmx += is_max(i); cmn += is_min(i); }
        ties = cmx > 1 || cmn > 1;
        const cmplx_t gmx = dsplib::max(a), gmn = dsplib::min(a), gpp = dsplib::peak2peak(a);
        const int imx = dsplib::argmax(a), imn = dsplib::argmin(a);
        bool fmx = false, fmn = false, fpp = false;
        for (int i = 0; i < n; ++i) {
            const Val v = x[size_t(i)];
            if (is_max(i) && gmx.re == v.re && gmx.im == v.im) fmx = true;
            if (is_min(i) && gmn.re == v.re && gmn.im == v.im) fmn = true;
        }
        for (int i = 0; i < n && !fpp; ++i)
            if (is_max(i))
                for (int j = 0; j < n && !fpp; ++j)
                    if (is_min(j)) {
                        const cld d = C(x[size_t(i)]) - C(x[size_t(j)]);
                        fpp = std::abs(cld(gpp.re, gpp.im) - d) <= 2 * ld(EPS) * std::abs(d);
                    }
        if (!fmx) o.fail("max:cmplx", fmt("max = %.17g%+.17gi is not an element of largest magnitude (n=%d, %s)", gmx.re, gmx.im, n, MNAME[cls]));
        if (!fmn) o.fail("min:cmplx", fmt("min = %.17g%+.17gi is not an element of smallest magnitude (n=%d, %s)", gmn.re, gmn.im, n, MNAME[cls]));
        if (imx < 0 || imx >= n || !is_max(imx)) o.fail("argmax:cmplx", fmt("argmax = %d does not address an element of largest magnitude (n=%d, %s)", imx, n, MNAME[cls]));
        if (imn < 0 || imn >= n || !is_min(imn)) o.fail("argmin:cmplx", fmt("argmin = %d does not address an element of smallest magnitude (n=%d, %s)", imn, n, MNAME[cls]));
        if (!fpp) o.fail("peak2peak:cmplx", fmt("peak2peak = %.17g%+.17gi is not (largest - smallest by magnitude) (n=%d, %s)", gpp.re, gpp.im, n, MNAME[cls]));
    }
    // two-argument forms on the first two elements
    if (n >= 2) {
        if (!cx) {
            const double a = x[0].re, b = x[1].re;
            const double g1 = dsplib::max(a, b), g2 = dsplib::min(a, b);
            if (!(g1 == std::max(a, b)) || !(g2 == std::min(a, b))) o.fail("minmax2:real", fmt("max/min(%.17g, %.17g) = %.17g / %.17g", a, b, g1, g2));
            const int ia = int(std::lround(std::fmax(-1e6, std::fmin(1e6, a))));
            const double g3 = dsplib::max(ia, b), g4 = dsplib::min(ia, b);
            if (!(g3 == std::max(double(ia), b)) || !(g4 == std::min(double(ia), b))) o.fail("minmax2:int,real", fmt("max/min(%d, %.17g) = %.17g / %.17g", ia, b, g3, g4));
        } else {
            const cmplx_t a(x[0].re, x[0].im), b(x[1].re, x[1].im);
            const ld na = std::norm(C(x[0])), nb = std::norm(C(x[1]));
            const cmplx_t g1 = dsplib::max(a, b), g2 = dsplib::min(a, b);
            const bool tie = std::fabs(na - nb) <= 4 * ld(EPS) * std::max(na, nb);
            auto same = [](cmplx_t u, cmplx_t v) { return u.re == v.re && u.im == v.im; };
            const bool ok1 = tie ? (same(g1, a) || same(g1, b)) : same(g1, na > nb ? a : b);
            const bool ok2 = tie ? (same(g2, a) || same(g2, b)) : same(g2, na < nb ? a : b);
            if (!ok1 || !ok2) o.fail("minmax2:cmplx", fmt("max/min((%.17g,%.17g), (%.17g,%.17g)) = (%.17g,%.17g) / (%.17g,%.17g)", a.re, a.im, b.re, b.im, g1.re, g1.im, g2.re, g2.im));
        }
    }
    o.evals = 7;
    if (n >= 2) o.nontrivial(key_of(int(cx), cls, n, int(ties)));
    o.label(std::string("input:") + kind + " " + MNAME[cls]);
    o.label(ties ? "ties:yes" : "ties:no");
    o.label(len_class(n));
}
static void mm_gen(Ctx& ctx) {
    for (int cx = 0; cx < 2; ++cx)
        for (int cls = 0; cls < M_N; ++cls)
            for (int n = 1; n <= 32; ++n)
                for (int rep = 0; rep < ctx.by_tier(4, 16); ++rep) {
                    if (!ctx.mine()) continue;
                    ctx.eval(Json::object().set("cx", cx).set("cls", cls).set("n", n).set("seed", (long long)(mix(ctx.seed, key_of(cx, cls, n, rep, 0x33)) >> 16)));
                }
    ctx.rc("random", ctx.by_tier(700000, 7000000), [&]() {
        return Json::object().set("cx", pick(0, 1)).set("cls", pick(0, M_N - 1)).set("n", pick_log(1, 1000)).set("seed", (long long)seed64());
    });
}

// =========================================================================================== inverse pairs
VK_SUB(rt, "roundtrip");
static void rt_check(const Json& c, Out& o) {
    const int pair = c.geti("pair"), cls = c.geti("cls"), n = c.geti("n");
    Rng r(c.getu("seed"));
    static const char* const PN[] = {"pow2db(db2pow(v))", "db2pow(pow2db(p))", "mag2db(db2mag(v))", "db2mag(mag2db(m))", "deg2rad(rad2deg(x))", "rad2deg(deg2rad(x))",
                                     "complex(real(z),imag(z))", "conj(conj(z))"};
    const ld E = EPS;
    double worst = 0;
    auto fail = [&](int i, const char* form, double in, double got, ld tol) {
        o.fail(std::string("roundtrip:") + PN[pair], fmt("%s %s [%d]: argument %.17g came back as %.17g (difference %.3Lg > tol %.3Lg)", form, PN[pair], i, in, got, std::fabs(ld(got) - ld(in)), tol));
    };
    if (pair < 6) {
        std::vector<Val> xv(static_cast<size_t>(n));
        for (auto& v : xv) v.re = gen_r(r, cls);
        const arr_real x = AR(xv);
        arr_real y;
        switch (pair) {
        case 0: y = dsplib::pow2db(dsplib::db2pow(x)); break;
        case 1: y = dsplib::db2pow(dsplib::pow2db(x)); break;
        case 2: y = dsplib::mag2db(dsplib::db2mag(x)); break;
        case 3: y = dsplib::db2mag(dsplib::mag2db(x)); break;
        case 4: y = dsplib::deg2rad(dsplib::rad2deg(x)); break;
        default: y = dsplib::rad2deg(dsplib::deg2rad(x)); break;
        }
        if (y.size() != n) { o.fail("roundtrip:size", fmt("%s of %d elements returned %d", PN[pair], n, y.size())); return; }
        for (int i = 0; i < n && !o.failed; ++i) {
            const double v = x[i];
            double sc = 0;
            ld tol = 0;
            switch (pair) {
            // 8 eps relative; for the dB pairs one rounding unit of the intermediate is worth 10/ln10 (20/ln10) dB absolute on the way
            // back, resp. |ln p| relative through the rounded exponent (conditioning of the inverse, derived here)
            case 0: sc = dsplib::pow2db(dsplib::db2pow(v)); tol = 8 * E * (std::fabs(ld(v)) + 10 / logl(10)); break;
            case 1: sc = dsplib::db2pow(dsplib::pow2db(v)); tol = 8 * E * (1 + std::fabs(logl(v))) * v; break;
            case 2: sc = dsplib::mag2db(dsplib::db2mag(v)); tol = 8 * E * (std::fabs(ld(v)) + 20 / logl(10)); break;
            case 3: sc = dsplib::db2mag(dsplib::mag2db(v)); tol = 8 * E * (1 + std::fabs(logl(v))) * v; break;
            case 4: sc = dsplib::deg2rad(dsplib::rad2deg(v)); tol = 8 * E * std::fabs(ld(v)); break;
            default: sc = dsplib::rad2deg(dsplib::deg2rad(v)); tol = 8 * E * std::fabs(ld(v)); break;
            }
            for (int form = 0; form < 2; ++form) {
                const double g = form ? sc : y[i];
                const ld e = std::fabs(ld(g) - ld(v));
                if (!std::isfinite(g) || !(e <= tol)) { fail(i, form ? "scalar" : "array", v, g, tol); break; }
                if (tol > 0) worst = std::max(worst, double(e / tol));
            }
        }
        o.label(std::string("rclass:") + RNAME[cls]);
    } else {
        std::vector<Val> zv(static_cast<size_t>(n));
        for (auto& v : zv) v = gen_c(r, cls);
        const arr_cmplx z = AC(zv);
        const arr_cmplx y = pair == 6 ? dsplib::complex(dsplib::real(z), dsplib::imag(z)) : dsplib::conj(dsplib::conj(z));
        if (y.size() != n) { o.fail("roundtrip:size", fmt("%s of %d elements returned %d", PN[pair], n, y.size())); return; }
        for (int i = 0; i < n; ++i)
            if (!(y[i].re == z[i].re && y[i].im == z[i].im)) { o.fail(std::string("roundtrip:") + PN[pair], fmt("%s [%d]: (%.17g,%.17g) came back as (%.17g,%.17g)", PN[pair], i, z[i].re, z[i].im, y[i].re, y[i].im)); break; }
        o.label(std::string("cclass:") + CNAME[cls]);
    }
    o.metric(std::string("err/tol ") + PN[pair], worst);
    o.evals = 2L * n;
    o.nontrivial(key_of(pair, cls, n));
    o.label(std::string("pair:") + PN[pair]);
}
static void rt_gen(Ctx& ctx) {
    static const std::vector<std::vector<int>> cls = {
      {R_ZERO, R_NZERO, R_ONE, R_MONE, R_INT, R_DB, R_DBSMALL}, {R_ONE, R_ABSGAUSS, R_LOGPOS, R_NEAR1}, {R_ZERO, R_NZERO, R_ONE, R_MONE, R_INT, R_DB, R_DBSMALL},
      {R_ONE, R_ABSGAUSS, R_LOGPOS, R_NEAR1}, {R_ZERO, R_NZERO, R_ONE, R_MONE, R_GAUSS, R_LOGSIGNED, R_PIMULT}, {R_ZERO, R_NZERO, R_ONE, R_MONE, R_GAUSS, R_LOGSIGNED, R_DEG},
      {C_ZERO4, C_UNITS, C_NEGAX_M, C_IMAX, C_GAUSS, C_MIXED}, {C_ZERO4, C_UNITS, C_NEGAX_M, C_IMAX, C_GAUSS, C_MIXED}};
    for (int pair = 0; pair < 8; ++pair)
        for (int cl : cls[size_t(pair)])
            for (int n : {1, 2, 5, 64})
                for (int rep = 0; rep < ctx.by_tier(4, 16); ++rep) {
                    if (!ctx.mine()) continue;
                    ctx.eval(Json::object().set("pair", pair).set("cls", cl).set("n", n).set("seed", (long long)(mix(ctx.seed, key_of(pair, cl, n, rep, 0x77)) >> 16)));
                }
    ctx.rc("random", ctx.by_tier(500000, 5000000), [&]() {
        int pair = pick(0, 7);
        int cl = cls[size_t(pair)][size_t(pick(0, int(cls[size_t(pair)].size()) - 1))];
        return Json::object().set("pair", pair).set("cls", cl).set("n", pick_log(1, 1000)).set("seed", (long long)seed64());
    });
}

// =========================================================================================== arange (integer form)
VK_SUB(ai, "arange_int");
static void ai_check(const Json& c, Out& o) {
    const int start = c.geti("start"), stop = c.geti("stop"), step = c.geti("step"), form = c.geti("form");
    // start + k*step for k >= 0 strictly before stop (in the direction of step); nothing for a wrong-direction step
    std::vector<double> ref;
    for (int64_t v = start; step > 0 ? v < stop : v > stop; v += step) ref.push_back(double(v));
    arr_real got;
    bool threw = false;
    try {
        got = form == 0 ? dsplib::arange(start, stop, step) : form == 1 ? dsplib::arange(start, stop) : dsplib::arange(stop);
    } catch (const std::exception&) { threw = true; }
    const char* dir = ref.empty() ? (start == stop ? "empty:start==stop" : "empty:wrong-direction") : (step > 0 ? "ascending" : "descending");
    const bool divisible = (int64_t(stop) - start) % step == 0;
    if (threw) {
        if (!ref.empty() || start == stop) o.fail(std::string("arange(int):throws:") + dir, fmt("arange(%d,%d,%d) threw, reference has %zu elements", start, stop, step, ref.size()));
        else o.label("wrong-direction:throws");
    } else if (size_t(got.size()) != ref.size()) {
        o.fail(std::string("arange(int):count:") + (divisible ? "divisible" : "remainder"), fmt("arange(%d,%d,%d) has %d elements, reference %zu", start, stop, step, got.size(), ref.size()));
    } else {
        for (size_t i = 0; i < ref.size(); ++i)
            if (!(got[int(i)] == ref[i])) { o.fail("arange(int):value", fmt("arange(%d,%d,%d)[%zu] = %.17g, reference %.17g", start, stop, step, i, got[int(i)], ref[i])); break; }
    }
    // the unit tests use arange(n) and divisible spans with step 1 only
    if (step != 1 || start != 0) o.nontrivial(key_of(start, stop, step, form));
    o.label(std::string("dir:") + dir);
    o.label(divisible ? "span:divisible" : "span:remainder");
    o.label(form == 0 ? "form:arange(a,b,s)" : form == 1 ? "form:arange(a,b)" : "form:arange(b)");
}
static void ai_gen(Ctx& ctx) {
    for (int a = -12; a <= 12; ++a)
        for (int b = -12; b <= 12; ++b)
            for (int s = -12; s <= 12; ++s) {
                if (s == 0 || !ctx.mine()) continue;
                ctx.eval(Json::object().set("start", a).set("stop", b).set("step", s).set("form", 0));
            }
    for (int a = -12; a <= 12; ++a)
        for (int b = -12; b <= 12; ++b) { if (!ctx.mine()) continue; ctx.eval(Json::object().set("start", a).set("stop", b).set("step", 1).set("form", 1)); }
    for (int b = -12; b <= 100; ++b) { if (!ctx.mine()) continue; ctx.eval(Json::object().set("start", 0).set("stop", b).set("step", 1).set("form", 2)); }
    ctx.rc("random", ctx.by_tier(300000, 3000000), [&]() {
        int start = pick(-1000000, 1000000), mag = pick_log(1, 100000), step = flip() ? mag : -mag;
        int count = pick_log(0, 2000), rem = pick(0, mag - 1);
        // stop = last listed element + (1..|step|) further in the direction of step; count 0 => stop on the wrong side or equal
        int64_t stop = count == 0 ? int64_t(start) - (step > 0 ? rem : -rem) : int64_t(start) + int64_t(count - 1) * step + (step > 0 ? 1 + rem : -1 - rem);
        return Json::object().set("start", start).set("stop", (long long)stop).set("step", step).set("form", 0);
    });
}

// =========================================================================================== arange (fractional form, integral count)
namespace {
template<class A, class B, class S>
std::vector<ld> frac_call(A a, B b, S s, std::vector<double>& got) {
    arr_real y = dsplib::arange(a, b, s);
    got.assign(y.begin(), y.end());
    std::vector<ld> ref(got.size());
    for (size_t i = 0; i < got.size(); ++i) ref[i] = ld(a) + ld(i) * ld(s);
    return ref;
}
}   // namespace
VK_SUB(af, "arange_frac");
static void af_check(const Json& c, Out& o) {
    const int types = c.geti("types"), k = c.geti("k");
    const double start = c.getd("start"), step = c.getd("step");
    static const char* const TN[] = {"(double,double,double)", "(int,int,double)", "(double,int,int)", "(int,double,int)", "(double,double,int)", "(float,float,float)", "arange(double stop)"};
    // stop is the exactly representable start + k*step when possible, else its nearest double; premise: the quotient is k up to 1e-6
    const double stop = double(ld(start) + ld(k) * ld(step));
    const ld q = (ld(stop) - ld(start)) / ld(step);
    auto isint = [](double v) { return std::fabs(v) < 1e9 && v == std::floor(v); };
    bool ok_types = true;
    switch (types) {
    case 1: ok_types = isint(start) && isint(stop); break;
    case 2: ok_types = isint(stop) && isint(step); break;
    case 3: ok_types = isint(start) && isint(step); break;
    case 4: ok_types = isint(step); break;
    case 5: ok_types = double(float(start)) == start && double(float(step)) == step && double(float(stop)) == stop && std::fabs(start) + std::fabs(k * step) < 1e6 &&
                       std::fabs(std::remainder(start * 1024, 1)) == 0 && std::fabs(std::remainder(step * 1024, 1)) == 0; break;
    case 6: ok_types = start == 0 && step == 1; break;
    default: break;
    }
    if (!ok_types || !(std::fabs(q - k) < 1e-6L)) { o.discard = true; return; }
    std::vector<double> got;
    std::vector<ld> ref;
    switch (types) {
    case 0: ref = frac_call(start, stop, step, got); break;
    case 1: ref = frac_call(int(start), int(stop), step, got); break;
    case 2: ref = frac_call(start, int(stop), int(step), got); break;
    case 3: ref = frac_call(int(start), stop, int(step), got); break;
    case 4: ref = frac_call(start, stop, int(step), got); break;
    case 5: ref = frac_call(float(start), float(stop), float(step), got); break;
    default: { arr_real y = dsplib::arange(real_t(stop)); got.assign(y.begin(), y.end()); ref.resize(got.size()); for (size_t i = 0; i < got.size(); ++i) ref[i] = ld(i); }
    }
    if (int(got.size()) != k) { o.fail(std::string("arange(frac):count:") + TN[types], fmt("arange%s(%.17g, %.17g, %.17g) has %zu elements, (stop-start)/step = %.12Lg", TN[types], start, stop, step, got.size(), q)); return; }
    double worst = 0;
    for (int i = 0; i < k; ++i) {
        const ld tol = 4 * ld(EPS) * (std::fabs(ld(start)) + std::fabs(ld(i) * ld(step)));
        const ld e = std::fabs(ld(got[size_t(i)]) - ref[size_t(i)]);
        if (!(e <= tol)) { o.fail(std::string("arange(frac):value:") + TN[types], fmt("arange%s(%.17g, %.17g, %.17g)[%d] = %.17g, reference %.20Lg (tol %.3Lg)", TN[types], start, stop, step, i, got[size_t(i)], ref[size_t(i)], tol)); break; }
        if (tol > 0) worst = std::max(worst, double(e / tol));
    }
    o.metric("err/tol arange(frac)", worst);
    o.nontrivial(key_of(types, k, hash_str(fmt("%.17g/%.17g", start, step))));
    o.label(std::string("types:") + TN[types]);
    o.label(step < 0 ? "step<0" : "step>0");
    o.label(k == 0 ? "count:0" : k <= 3 ? "count:1-3" : "count:>3");
    o.label(std::string("grid:") + c.gets("grid", "?"));
}
static void af_gen(Ctx& ctx) {
    // the classic decimal steps: arange(0, 1, 0.1) ... (stop - start)/step is integral only nominally
    for (double step : {0.1, 0.01, 0.001, 0.2, 0.3, 0.7, 0.05, 1.0 / 3, 1.0 / 7, 0.125, 0.5, 2.5, -0.1, -0.25, -0.3, 1e-3, 1e-4})
        for (int k = 0; k <= 100; ++k)
            for (int s0 : {0, 1, -3, 10}) {
                if (!ctx.mine()) continue;
                ctx.eval(Json::object().set("types", 0).set("start", double(s0)).set("step", step).set("k", k).set("grid", "decimal"));
            }
    for (int k = 0; k <= 200; ++k) { if (!ctx.mine()) continue; ctx.eval(Json::object().set("types", 6).set("start", 0.0).set("step", 1.0).set("k", k).set("grid", "integer")); }
    ctx.rc("random", ctx.by_tier(300000, 3000000), [&]() {
        int types = pick(0, 5), k = pick_log(0, 300), g = pick(0, 2);
        double start, step;
        if (types == 5 || g == 0) {            // dyadic grid: everything exact
            start = double(pick(-4096, 4096)) / 64;
            int b = pick(1, 512);
            step = double(flip() ? b : -b) / 64;
        } else if (g == 1) {                   // decimal
            int q = pick(2, 1000);
            start = double(pick(-20, 20));
            step = (flip() ? 1.0 : -1.0) * double(pick(1, 9)) / q;
        } else {                               // general doubles
            start = pickd(-1, 1) * std::pow(10.0, pick(-3, 3));
            step = (flip() ? 1.0 : -1.0) * pickd(0.1, 1) * std::pow(10.0, pick(-3, 3));
        }
        if (types == 1) {                      // int start, int stop, fractional step: k = m*j steps of +-1/m
            int m = pick_log(1, 64), j = pick_log(0, 20);
            start = double(pick(-100, 100)); step = (flip() ? 1.0 : -1.0) / m; k = m * j;
        }
        if (types == 2) { start = double(pick(-100, 100)); step = double(flip() ? pick(1, 50) : -pick(1, 50)); }
        if (types == 3) { start = double(pick(-100, 100)); step = double(flip() ? pick(1, 50) : -pick(1, 50)); }
        if (types == 4) { step = double(flip() ? pick(1, 50) : -pick(1, 50)); }
        return Json::object().set("types", types).set("start", start).set("step", step).set("k", k).set("grid", g == 0 || types == 5 ? "dyadic" : g == 1 ? "decimal" : "general");
    });
}

// =========================================================================================== linspace
VK_SUB(ls, "linspace");
static void ls_check(const Json& c, Out& o) {
    const int n = c.geti("n"), cls = c.geti("cls");
    Rng r(c.getu("seed"));
    double x1 = 0, x2 = 0;
    static const char* const LN[] = {"-5..5", "0..10", "gauss", "+-10^U(-100,100)", "equal endpoints", "descending", "zero to x", "near-equal endpoints"};
    switch (cls) {
    case 0: x1 = -5; x2 = 5; break;
    case 1: x1 = 0; x2 = 10; break;
    case 2: x1 = r.gauss(); x2 = r.gauss(); break;
    case 3: x1 = gen_r(r, R_LOGSIGNED); x2 = gen_r(r, R_LOGSIGNED); break;
    case 4: x1 = x2 = gen_r(r, r.coin() ? R_GAUSS : R_LOGSIGNED); break;
    case 5: x1 = std::fabs(r.gauss()) * 10; x2 = -std::fabs(r.gauss()) * 10; break;
    case 6: x1 = r.coin() ? 0.0 : NZ; x2 = gen_r(r, R_LOGSIGNED); if (r.coin()) std::swap(x1, x2); break;
    default: x1 = r.gauss() * 1000; x2 = x1 * (1 + r.gauss() * 1e-12); break;
    }
    const arr_real y = dsplib::linspace(x1, x2, size_t(n));
    if (y.size() != n) { o.fail("linspace:size", fmt("linspace(%.17g, %.17g, %d) has %d elements", x1, x2, n, y.size())); return; }
    const ld tol = 8 * ld(EPS) * (std::fabs(ld(x1)) + std::fabs(ld(x2)));
    double worst = 0;
    for (int i = 0; i < n; ++i) {
        // n points from x1 to x2 inclusive; a single point is x2 (documented by the unit test Utils.Linspace)
        const ld ref = n == 1 ? ld(x2) : ld(x1) + (ld(x2) - ld(x1)) * ld(i) / ld(n - 1);
        const ld e = std::fabs(ld(y[i]) - ref);
        if (!std::isfinite(y[i]) || !(e <= tol)) { o.fail(n == 1 ? "linspace:n=1" : n == 2 ? "linspace:n=2" : "linspace:value", fmt("linspace(%.17g, %.17g, %d)[%d] = %.17g, reference %.20Lg (tol %.3Lg)", x1, x2, n, i, y[i], ref, tol)); break; }
        if (tol > 0) worst = std::max(worst, double(e / tol));
    }
    o.metric("err/tol linspace", worst);
    o.evals = 1;
    if (!(cls <= 1 && (n == 10 || n <= 2))) o.nontrivial(key_of(cls, n));
    o.label(std::string("ends:") + LN[cls]);
    o.label(n == 1 ? "n:1" : n == 2 ? "n:2" : n <= 100 ? "n:3-100" : "n:101-1000");
}
static void ls_gen(Ctx& ctx) {
    for (int n = 1; n <= 100; ++n)
        for (int cls = 0; cls < 8; ++cls)
            for (int rep = 0; rep < ctx.by_tier(8, 32); ++rep) {
                if (!ctx.mine()) continue;
                ctx.eval(Json::object().set("n", n).set("cls", cls).set("seed", (long long)(mix(ctx.seed, key_of(n, cls, rep, 0x115)) >> 16)));
            }
    ctx.rc("random", ctx.by_tier(300000, 3000000), [&]() { return Json::object().set("n", pick_log(1, 1000)).set("cls", pick(0, 7)).set("seed", (long long)seed64()); });
}

// =========================================================================================== upsample / downsample
namespace {
template<class A> struct elem_of;
template<class T> struct elem_of<dsplib::base_array<T>> { using type = T; };
template<class T> bool same_elem(const T& a, const T& b) { return a == b; }
template<> bool same_elem<cmplx_t>(const cmplx_t& a, const cmplx_t& b) { return a.re == b.re && a.im == b.im; }
template<class T> std::string show(const T& v) { return fmt("%.17g", double(v)); }
template<> std::string show<cmplx_t>(const cmplx_t& v) { return fmt("(%.17g,%.17g)", v.re, v.im); }
template<class A> std::string show_arr(const A& a) {
    std::string s = "{";
    for (int i = 0; i < a.size() && i < 16; ++i) s += (i ? ", " : "") + show(a[i]);
    return s + (a.size() > 16 ? ", ...}" : "}");
}
template<class A>
bool expect_arr(Out& o, const std::string& sig, const std::string& what, const A& got, const std::vector<typename elem_of<A>::type>& ref) {
    bool ok = size_t(got.size()) == ref.size();
    for (size_t i = 0; ok && i < ref.size(); ++i) ok = same_elem(got[int(i)], ref[i]);
    if (!ok) {
        std::string rs = "{";
        for (size_t i = 0; i < ref.size() && i < 16; ++i) rs += (i ? ", " : "") + show(ref[i]);
        o.fail(sig, what + " = " + show_arr(got) + fmt(" (%d elements), reference ", got.size()) + rs + fmt("%s} (%zu elements)", ref.size() > 16 ? ", ..." : "", ref.size()));
    }
    return ok;
}
template<class A> A make_seq(Rng& r, int n, bool cx);
template<> arr_real make_seq<arr_real>(Rng& r, int n, bool) {
    arr_real x(n);
    for (int i = 0; i < n; ++i) x[i] = (i + 1) + 0.25 * r.range(0, 3);   // distinct, non-zero
    return x;
}
template<> arr_cmplx make_seq<arr_cmplx>(Rng& r, int n, bool) {
    arr_cmplx x(n);
    for (int i = 0; i < n; ++i) x[i] = cmplx_t((i + 1) + 0.25 * r.range(0, 3), -(i + 1) - 0.5 * r.range(0, 1));
    return x;
}
template<class A>
void updown_case(Out& o, int n, int f, int ph, uint64_t seed, const char* kind) {
    using T = typename elem_of<A>::type;
    Rng r(seed);
    const A x = make_seq<A>(r, n, false);
    // upsample: n*f elements, x[i] at ph + i*f, zeros elsewhere
    std::vector<T> up(size_t(n) * size_t(f), T(0));
    for (int i = 0; i < n; ++i) up[size_t(ph) + size_t(i) * size_t(f)] = x[i];
    const A gu = dsplib::upsample(x, f, ph);
    expect_arr(o, std::string("upsample:") + kind, fmt("upsample(x[%d], %d, %d)", n, f, ph), gu, up);
    if (ph == 0) expect_arr(o, std::string("upsample:default-phase:") + kind, fmt("upsample(x[%d], %d)", n, f), dsplib::upsample(x, f), up);
    // downsample: x[ph + i*f] for every index below n (phase below the length: at least one element)
    if (ph < n) {
        std::vector<T> dn;
        for (int k = ph; k < n; k += f) dn.push_back(x[k]);
        expect_arr(o, std::string("downsample:") + kind, fmt("downsample(x[%d], %d, %d)", n, f, ph), dsplib::downsample(x, f, ph), dn);
        if (ph == 0) expect_arr(o, std::string("downsample:default-phase:") + kind, fmt("downsample(x[%d], %d)", n, f), dsplib::downsample(x, f), dn);
    } else o.label("excluded:downsample phase >= length (outside the quantifier)");
    // inverse pair
    if (!o.failed) {
        std::vector<T> xr(x.begin(), x.end());
        expect_arr(o, std::string("downsample(upsample):") + kind, fmt("downsample(upsample(x[%d], %d, %d), %d, %d)", n, f, ph, f, ph), dsplib::downsample(gu, f, ph), xr);
    }
}
}   // namespace
VK_SUB(ud, "updownsample");
static void ud_check(const Json& c, Out& o) {
    const int n = c.geti("n"), f = c.geti("f"), ph = c.geti("ph");
    const bool cx = c.geti("cx") != 0;
    if (cx) updown_case<arr_cmplx>(o, n, f, ph, c.getu("seed"), "cmplx"); else updown_case<arr_real>(o, n, f, ph, c.getu("seed"), "real");
    o.evals = 3;
    o.nontrivial(key_of(n, f, ph, int(cx)));
    o.label(f == 1 ? "factor:1" : f <= n ? "factor:2..n" : "factor:>n");
    o.label(ph == 0 ? "phase:0" : ph == f - 1 ? "phase:f-1" : "phase:inner");
    o.label(cx ? "cmplx" : "real");
}
static void ud_gen(Ctx& ctx) {
    for (int n = 1; n <= 12; ++n)
        for (int f = 1; f <= 16; ++f)
            for (int ph = 0; ph < f; ++ph)
                for (int cx = 0; cx < 2; ++cx) {
                    if (!ctx.mine()) continue;
                    ctx.eval(Json::object().set("n", n).set("f", f).set("ph", ph).set("cx", cx).set("seed", (long long)(mix(ctx.seed, key_of(n, f, ph, cx)) >> 16)));
                }
    ctx.rc("random", ctx.by_tier(300000, 3000000), [&]() {
        int n = pick_log(1, 1000), f = pick_log(1, 64);
        return Json::object().set("n", n).set("f", f).set("ph", pick(0, f - 1)).set("cx", pick(0, 1)).set("seed", (long long)seed64());
    });
}

// =========================================================================================== repelem / flip / zeropad / delayseq
namespace {
template<class A>
void shape_case(Out& o, int fn, int n, int k, uint64_t seed, const char* kind) {
    using T = typename elem_of<A>::type;
    Rng r(seed);
    const A x = make_seq<A>(r, n, false);
    std::vector<T> ref;
    switch (fn) {
    case 0:   // repelem: every element k times in place; k = 0 gives the empty array
        for (int i = 0; i < n; ++i) for (int j = 0; j < k; ++j) ref.push_back(x[i]);
        expect_arr(o, std::string("repelem:") + kind, fmt("repelem(x[%d], %d)", n, k), dsplib::repelem(x, k), ref);
        break;
    case 1:
        for (int i = n - 1; i >= 0; --i) ref.push_back(x[i]);
        expect_arr(o, std::string("flip:") + kind, fmt("flip(x[%d])", n), dsplib::flip(x), ref);
        break;
    case 2:   // zeropad to n + k elements
        ref.assign(x.begin(), x.end());
        ref.resize(size_t(n + k), T(0));
        expect_arr(o, std::string("zeropad:") + kind, fmt("zeropad(x[%d], %d)", n, n + k), dsplib::zeropad(x, n + k), ref);
        break;
    default:   // delayseq by k - (n + 2): y[i] = x[i - d] inside the array, zero outside; length unchanged
    {
        const int d = k - (n + 2);
        ref.assign(size_t(n), T(0));
        for (int i = 0; i < n; ++i) if (i - d >= 0 && i - d < n) ref[size_t(i)] = x[i - d];
        expect_arr(o, std::string("delayseq:") + kind + (d > 0 ? ":delay" : d < 0 ? ":advance" : ":zero"), fmt("delayseq(x[%d], %d)", n, d), dsplib::delayseq(x, d), ref);
        o.label(d == 0 ? "delay:0" : std::abs(d) >= n ? "delay:|d|>=n" : d > 0 ? "delay:>0" : "delay:<0");
    }
    }
}
}   // namespace
VK_SUB(sh, "shape_utils");
static void sh_check(const Json& c, Out& o) {
    static const char* const FN[] = {"repelem", "flip", "zeropad", "delayseq"};
    const int fn = c.geti("fn"), n = c.geti("n"), k = c.geti("k");
    const bool cx = c.geti("cx") != 0;
    if (cx) shape_case<arr_cmplx>(o, fn, n, k, c.getu("seed"), "cmplx"); else shape_case<arr_real>(o, fn, n, k, c.getu("seed"), "real");
    o.nontrivial(key_of(fn, n, k, int(cx)));
    o.label(std::string("fn:") + FN[fn] + (cx ? "(cmplx)" : "(real)"));
    o.label(len_class(n));
}
static void sh_gen(Ctx& ctx) {
    for (int n = 1; n <= 12; ++n)
        for (int cx = 0; cx < 2; ++cx)
            for (int fn = 0; fn < 4; ++fn) {
                const int kmax = fn == 0 ? 8 : fn == 1 ? 0 : fn == 2 ? 16 : 2 * (n + 2);
                for (int k = 0; k <= kmax; ++k) {
                    if (!ctx.mine()) continue;
                    ctx.eval(Json::object().set("fn", fn).set("n", n).set("k", k).set("cx", cx).set("seed", (long long)(mix(ctx.seed, key_of(fn, n, k, cx)) >> 16)));
                }
            }
    ctx.rc("random", ctx.by_tier(300000, 3000000), [&]() {
        int fn = pick(0, 3), n = pick_log(1, 1000);
        int k = fn == 0 ? pick_log(0, 32) : fn == 1 ? 0 : fn == 2 ? pick_log(0, 1000) : pick(0, 2 * (n + 2));
        return Json::object().set("fn", fn).set("n", n).set("k", k).set("cx", pick(0, 1)).set("seed", (long long)seed64());
    });
}

VK_FRESH_THREADS;
VK_MAIN("C17")
