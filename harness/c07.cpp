// C07  FIR filtering and correlation equal their defining sums.
//
//   FirFilter / FftFilter (real, complex), from rest:  y[i] = sum_k conj(c[k]) x[i-k]   (conj only for complex: the library's
//   documented convention, lib/fir.cpp:_conv multiplies by conj(h), FftFilter transforms conj(h)); FftFilter emits that
//   sequence in multiples of block_size().  xcorr(a,b)[lag + n2 - 1] = sum_n a[n+lag] conj(b[n]).  MAFilter(n) = FIR with n
//   taps 1/n.
//
// Oracles: the sums in long double, with a-priori forward-error bounds computed next to the reference (DESIGN section 4, C07):
//   FirFilter  per sample  |y - yref| <= 4 nh eps sum_k |c_k||x_{i-k}|
//   FftFilter  per block   ||y - yref||_2 <= 128 N eps ||c||_1 (||x_blk||_2 + ||x_prevblk||_2)     (see note [olap])
//   xcorr      whole       ||r - rref||_2 <= 128 M eps ||a||_2 ||b||_2,  M = 2^ceil(log2(n1+n2-1))
//   MAFilter   per sample  |y - yref| <= 4 n eps max_{j<=i} |x_j|
// Additions (coverage audit): FftFilter with coefficient and input of different types (real h / complex x; complex h / real x, where
// the arr_real return type can only carry the real part of the sum -- see fftf_check), FftFilter with one tap, the public static
// FirFilter<T>::conv (valid part of the same sum), the mutable FirFilter::coeffs() reference (fir_coeffs), xcorr length sums at
// 2^k-1 | 2^k | 2^k+1 up to k = 13 generated on purpose.
// [olap] DESIGN writes the FftFilter bound with ||x_blk|| only.  Overlap-add puts the tail of the previous block's circular
// convolution into this block, so its rounding error scales with the previous block too (a 1e+100 block followed by an O(1)
// block leaves an error of eps*1e+100 in the first m-1 outputs of the latter).  The two-block form is the derived bound.
#include "kit/num.h"
#include "kit/prelude.h"
#include <dsplib.h>
#include "ma-filter.h"

using namespace vk;
using namespace dsplib;

namespace {

using cd = std::complex<double>;

// ------------------------------------------------------------------------------------------- content classes
enum HCls { H_FIRST = 0, H_LAST, H_SPARSE, H_SYMM, H_RANDOM, H_TINYSCALE, H_BIGSCALE, H_NEARSYM, H_NCLS };
const char* h_name(int c) {
    static const char* n[] = {"first-tap-only", "last-tap-only", "sparse", "symmetric", "random", "random*1e-12..-40", "random*1e6..40", "near-symmetric"};
    return (c >= 0 && c < H_NCLS) ? n[c] : "?";
}
constexpr int X_SPARSE = S_NCLASSES;   // kit classes 0..8 plus a sparse train of impulses
constexpr int X_NCLS = S_NCLASSES + 1;
const char* x_name(int c) { return c == X_SPARSE ? "sparse" : sig_name(c); }
constexpr double DYN_E = 100;   // 10^U(-100,100) as stated

std::vector<cd> gen_coeffs(Rng& r, int nh, int cls, bool cplx) {
    std::vector<cd> h(static_cast<size_t>(nh));
    auto amp = [&]() { return cplx ? cd(r.gauss(), r.gauss()) : cd(r.gauss(), 0); };
    switch (cls) {
    case H_FIRST: h[0] = amp(); break;
    case H_LAST: h[size_t(nh - 1)] = amp(); break;
    case H_SPARSE: {
        int k = std::max(1, std::min(nh, r.range(1, 4)));
        for (int j = 0; j < k; ++j) h[size_t(r.range(0, nh - 1))] = amp();
        break;
    }
    case H_SYMM:
        for (int k = 0; k < (nh + 1) / 2; ++k) h[size_t(k)] = h[size_t(nh - 1 - k)] = amp();
        break;
    case H_TINYSCALE: {   // the defining sum is scale-free: an absolute threshold anywhere in the code shows up here
        const double sc = std::pow(10.0, -double(r.range(12, 40)));
        for (auto& v : h) v = amp() * sc;
        break;
    }
    case H_BIGSCALE: {
        const double sc = std::pow(10.0, double(r.range(6, 40)));
        for (auto& v : h) v = amp() * sc;
        break;
    }
    case H_NEARSYM: {   // symmetric up to a perturbation far below the taps' scale (but not zero)
        for (int k = 0; k < (nh + 1) / 2; ++k) h[size_t(k)] = h[size_t(nh - 1 - k)] = amp();
        const double tiny = std::pow(10.0, -double(r.range(3, 20)));
        const size_t j = size_t(r.range(0, nh - 1));
        if (r.coin()) h[j] += cd(tiny, 0);                 // one tap off by a tiny absolute amount
        else { h[j] = cd(tiny, 0); h[size_t(nh - 1) - j] = (2 * j + 1 == size_t(nh)) ? h[j] : cd(0, 0); }   // tiny tap without a mirror partner
        break;
    }
    default:
        for (auto& v : h) v = amp();
    }
    return h;
}

std::vector<cd> gen_input(Rng& r, int nx, int cls, bool cplx) {
    std::vector<cd> x(static_cast<size_t>(nx));
    if (nx == 0) return x;
    if (cls == X_SPARSE) {
        const double p = 1.0 / double(r.range(4, 64));
        for (auto& v : x)
            if (r.uni() < p) v = cplx ? cd(r.gauss(), r.gauss()) : cd(r.gauss(), 0);
        return x;
    }
    if (cplx) return gen_cmplx(r, nx, cls, DYN_E);
    auto xr = gen_real(r, nx, cls, DYN_E);
    for (size_t i = 0; i < x.size(); ++i) x[i] = cd(xr[i], 0);
    return x;
}

template<class T> base_array<T> mk(const std::vector<cd>& v, size_t from, size_t len);
template<> arr_real mk<real_t>(const std::vector<cd>& v, size_t from, size_t len) {
    const int n = int(len);
    arr_real a(n);
    for (size_t i = 0; i < len; ++i) a[int(i)] = v[from + i].real();
    return a;
}
template<> arr_cmplx mk<cmplx_t>(const std::vector<cd>& v, size_t from, size_t len) {
    const int n = int(len);
    arr_cmplx a(n);
    for (size_t i = 0; i < len; ++i) a[int(i)] = cmplx_t{v[from + i].real(), v[from + i].imag()};
    return a;
}
inline cd tocd(real_t v) { return cd(v, 0); }
inline cd tocd(const cmplx_t& v) { return cd(v.re, v.im); }
template<class T> void append(std::vector<cd>& y, const base_array<T>& a) {
    for (int i = 0; i < a.size(); ++i) y.push_back(tocd(a[i]));
}

// frame partition of nx samples: a pure function of (mode, nx, block, seed)
enum FrameMode { F_WHOLE = 0, F_RANDOM, F_BLOCKS, F_SINGLE, F_NMODES };
const char* f_name(int m) {
    static const char* n[] = {"whole", "random(with empty)", "block-multiples", "sample-by-sample"};
    return (m >= 0 && m < F_NMODES) ? n[m] : "?";
}
std::vector<int> frames_of(int mode, int nx, int block, uint64_t seed) {
    std::vector<int> f;
    Rng r(mix(seed, 0xF2A3E5));
    if (mode == F_SINGLE && nx > 3000) mode = F_RANDOM;
    if (mode == F_WHOLE) { f.push_back(nx); return f; }
    int left = nx;
    if (mode == F_SINGLE) { for (int i = 0; i < nx; ++i) f.push_back(1); f.push_back(0); return f; }
    if (mode == F_BLOCKS) {
        while (left > 0) {
            int k = std::min(left, block * r.range(1, 3));
            f.push_back(k);
            left -= k;
            if (r.range(0, 7) == 0) f.push_back(0);
        }
        if (f.empty()) f.push_back(0);
        return f;
    }
    f.push_back(r.range(0, 3) == 0 ? 0 : std::min(left, r.range(0, 5)));   // may start with an empty frame
    left -= f.back();
    while (left > 0) {
        int kind = r.range(0, 5), k;
        switch (kind) {
        case 0: k = 0; break;
        case 1: k = 1; break;
        case 2: k = r.range(1, 7); break;
        case 3: k = r.range(1, std::max(1, block)); break;
        default: k = r.range(1, std::max(1, nx / 3));
        }
        k = std::min(k, left);
        f.push_back(k);
        left -= k;
    }
    f.push_back(0);   // a trailing empty frame must change nothing either
    return f;
}

// ------------------------------------------------------------------------------------------- long-double reference
// y[i] = sum_{k=0}^{min(nh-1,i)} conj?(h[k]) x[i-k],  s[i] = sum |h[k]||x[i-k]|   for i < L   (from rest)
struct FirRef
{
    std::vector<ld> yr, yi, s;
};
FirRef ld_fir(const std::vector<cd>& h, const std::vector<cd>& x, size_t L, bool cplx) {
    const size_t nh = h.size();
    std::vector<ld> hr(nh), hi(nh), ha(nh), xr(x.size()), xi(x.size()), xa(x.size());
    for (size_t k = 0; k < nh; ++k) { hr[k] = h[k].real(); hi[k] = cplx ? -ld(h[k].imag()) : ld(0); ha[k] = hypotl(hr[k], hi[k]); }
    for (size_t i = 0; i < x.size(); ++i) { xr[i] = x[i].real(); xi[i] = x[i].imag(); xa[i] = hypotl(xr[i], xi[i]); }
    FirRef R;
    R.yr.assign(L, 0); R.yi.assign(L, 0); R.s.assign(L, 0);
    for (size_t i = 0; i < L; ++i) {
        const size_t kmax = std::min(nh - 1, i);
        ld ar = 0, ai = 0, sa = 0;
        const ld* px = &xr[i];
        const ld* pi = &xi[i];
        const ld* pa = &xa[i];
        if (!cplx) {
            for (size_t k = 0; k <= kmax; ++k) { ar += hr[k] * *(px - k); sa += ha[k] * *(pa - k); }
        } else {
            for (size_t k = 0; k <= kmax; ++k) {
                const ld a = hr[k], b = hi[k], c = *(px - k), d = *(pi - k);
                ar += a * c - b * d;
                ai += a * d + b * c;
                sa += ha[k] * *(pa - k);
            }
        }
        R.yr[i] = ar; R.yi[i] = ai; R.s[i] = sa;
    }
    return R;
}
inline ld err_at(const FirRef& R, size_t i, const cd& y) { return hypotl(ld(y.real()) - R.yr[i], ld(y.imag()) - R.yi[i]); }
inline bool finite_cd(const cd& v) { return std::isfinite(v.real()) && std::isfinite(v.imag()); }

ld l2_range(const std::vector<cd>& x, size_t a, size_t b) {   // scaled: content may span 1e+-100
    ld m = 0;
    for (size_t i = a; i < b; ++i) m = std::max(m, std::max<ld>(std::fabs(x[i].real()), std::fabs(x[i].imag())));
    if (m == 0) return 0;
    ld s = 0;
    for (size_t i = a; i < b; ++i) { ld p = x[i].real() / m, q = x[i].imag() / m; s += p * p + q * q; }
    return m * sqrtl(s);
}

int len_class(int nx) { int b = 0; while ((1 << b) <= nx) ++b; return b; }   // 0, 1, 2-3, 4-7, ...
std::string len_label(int nx) {
    if (nx == 0) return "0";
    if (nx < 16) return "1..15";
    if (nx < 256) return "16..255";
    if (nx < 4096) return "256..4095";
    if (nx < 32768) return "4096..32767";
    return "32768..100000";
}
bool near_pow2(int nh) { for (int k = 1; k <= 10; ++k) if (std::abs(nh - (1 << k)) <= 1) return true; return false; }

// ------------------------------------------------------------------------------------------- FirFilter
template<class T>
void run_fir(const std::vector<cd>& h, const std::vector<cd>& x, const std::vector<int>& frames, bool use_call_op, std::vector<cd>& y, Out& o) {
    FirFilter<T> f(mk<T>(h, 0, h.size()));
    size_t pos = 0;
    int idx = 0;
    for (int k : frames) {
        base_array<T> in = mk<T>(x, pos, size_t(k));
        base_array<T> out = (use_call_op && (idx & 1)) ? f(in) : f.process(in);
        if (out.size() != k) {
            o.fail(k == 0 ? "fir:empty-frame" : "fir:length", fmt("FirFilter::process of a %d-sample frame (frame %d) returned %d samples", k, idx, out.size()));
            return;
        }
        append(y, out);
        pos += size_t(k);
        ++idx;
    }
}

}   // namespace

VK_SUB(fir, "fir_direct");
static void fir_check(const Json& c, Out& o) {
    const bool cplx = c.geti("cplx") != 0;
    const int nh = c.geti("nh"), hcls = c.geti("hcls"), nx = c.geti("nx"), xcls = c.geti("xcls"), fm = c.geti("fm");
    Rng r(c.getu("seed"));
    const auto h = gen_coeffs(r, nh, hcls, cplx);
    const auto x = gen_input(r, nx, xcls, cplx);
    const auto frames = frames_of(fm, nx, nh, c.getu("seed"));
    std::vector<cd> y;
    y.reserve(x.size());
    if (cplx) run_fir<cmplx_t>(h, x, frames, true, y, o);
    else run_fir<real_t>(h, x, frames, true, y, o);
    if (o.failed) return;
    const FirRef R = ld_fir(h, x, x.size(), cplx);
    const ld c4 = 4 * ld(nh) * EPS;
    double worst = 0;
    bool nonzero = false;
    for (size_t i = 0; i < x.size(); ++i) {
        const ld e = finite_cd(y[i]) ? err_at(R, i, y[i]) : ld(INFINITY);
        const ld tol = c4 * R.s[i];
        nonzero |= R.s[i] > 0;
        const double ratio = tol > 0 ? double(e / tol) : (e == 0 ? 0.0 : 1e300);
        worst = std::max(worst, ratio);
        if (!(e <= tol)) {
            o.fail(cplx ? "fir:value:complex" : "fir:value:real",
                   fmt("FirFilter<%s> nh=%d (%s) nx=%d (%s) frames=%s: y[%zu]=(%.17g,%.17g), sum_k conj(c[k])x[i-k]=(%.17Lg,%.17Lg), |diff|=%.3Lg > 4 nh eps sum|c||x| = %.3Lg",
                       cplx ? "cmplx" : "real", nh, h_name(hcls), nx, x_name(xcls), f_name(fm), i, y[i].real(), y[i].imag(), R.yr[i], R.yi[i], e, tol));
            break;
        }
    }
    o.metric("fir err/tol", worst);
    if (nx > nh && nonzero) o.nontrivial(key_of(1, int(cplx), nh, len_class(nx), hcls, xcls));
    o.label(std::string("h:") + h_name(hcls));
    o.label(std::string("x:") + x_name(xcls));
    o.label(cplx ? "type:complex" : "type:real");
    o.label("nx:" + len_label(nx));
    o.label(std::string("frames:") + f_name(fm));
    o.label(nx == 0 ? "rel:empty-input" : nx <= nh ? "rel:nx<=nh" : "rel:nx>nh");
}

#ifndef VK_NO_RAPIDCHECK
static int pick_nh() {
    if (pick(0, 2) == 0) {
        int k = pick(1, 10), d = pick(-1, 1);
        return std::max(2, std::min(1024, (1 << k) + d));
    }
    return pick_log(2, 1024);
}
#endif

static void fir_gen(Ctx& ctx) {
    // (1) small grid: every nh in 2..24 x coefficient class x type x input lengths around nh (incl. empty input)
    for (int nh = 2; nh <= 24; ++nh)
        for (int hcls = 0; hcls < H_NCLS; ++hcls)
            for (int cplx = 0; cplx < 2; ++cplx) {
                const int nxs[] = {0, 1, nh - 1, nh, nh + 1, 3 * nh + 2};
                int j = 0;
                for (int nx : nxs) {
                    ++j;
                    if (!ctx.mine()) continue;
                    ctx.eval(Json::object().set("cplx", cplx).set("nh", nh).set("hcls", hcls).set("nx", nx).set("xcls", int(j & 1 ? S_GAUSS : S_DYNRANGE))
                               .set("fm", (nh + j + hcls) % 2 ? int(F_RANDOM) : int(F_WHOLE)).set("seed", (long long)(mix(ctx.seed, key_of(nh, hcls, cplx, nx)) >> 16)));
                }
            }
    // (2) rapidcheck over everything up to nh*nx ~ 4e6
    ctx.rc("random", ctx.by_tier(120000, 2000000), [&]() {
        int nh = pick_nh();
        int m = pick(0, 19);
        int nx = m == 0 ? 0 : m <= 2 ? pick(1, nh + 1) : m <= 9 ? nh + pick_log(1, std::min(20000, 4000000 / nh)) : pick_log(1, std::min(20000, 4000000 / nh));
        int fm = one_of<int>({F_WHOLE, F_RANDOM, F_RANDOM, F_SINGLE});
        return Json::object().set("cplx", pick(0, 1)).set("nh", nh).set("hcls", pick(0, H_NCLS - 1)).set("nx", nx).set("xcls", pick(0, X_NCLS - 1)).set("fm", fm)
          .set("seed", (long long)seed64());
    });
    // (3) long inputs (up to 1e5): a few cases
    {
        Rng r(mix(ctx.seed, 0xF1207));
        const int count = ctx.by_tier(16, 96);
        for (int k = 0; k < count; ++k) {
            const int nh = k % 8 == 0 ? 1024 : k % 8 == 1 ? 2 : k % 8 == 2 ? 257 : r.range(2, 200);
            const int nx = k % 4 == 0 ? 100000 : r.range(30000, 100000);
            const int xcls = k % 3 == 0 ? int(S_DYNRANGE) : k % 3 == 1 ? int(S_GAUSS) : X_SPARSE;
            Json cs = Json::object().set("cplx", (k / 8) % 2).set("nh", nh).set("hcls", k % 5 == 0 ? int(H_LAST) : int(H_RANDOM)).set("nx", nx).set("xcls", xcls)
                        .set("fm", k % 2 ? int(F_RANDOM) : int(F_WHOLE)).set("seed", (long long)(r.next() >> 16));
            if (!ctx.mine()) continue;
            ctx.eval(cs);
        }
    }
}

// ------------------------------------------------------------------------------------------- FirFilter<T>::conv (public static)
// conv(x, h) is the kernel process() applies to (history | frame): the part of the defining sum where all nh taps are inside x,
//   r[i] = sum_k conj?(h[k]) x[i + nh-1 - k],  i = 0 .. nx-nh      (nx-nh+1 values; none for nx = nh-1, which is what process()
// itself passes for an empty frame).  nx < nh-1 is outside the kernel's domain (lib/fir.cpp asserts nr > 0): an exception or an
// empty result is accepted there, values are not.  From rest, process(x) merely forwards to conv(zeros(nh-1) | x, h): bit-exact.
namespace {
template<class T> bool same_bits(const base_array<T>& a, const base_array<T>& b) {
    if (a.size() != b.size()) return false;
    for (int i = 0; i < a.size(); ++i) {
        const cd p = tocd(a[i]), q = tocd(b[i]);
        auto eq = [](double u, double v) { return u == v || (std::isnan(u) && std::isnan(v)); };
        if (!eq(p.real(), q.real()) || !eq(p.imag(), q.imag())) return false;
    }
    return true;
}
template<class T>
void run_conv(const std::vector<cd>& h, const std::vector<cd>& x, bool cplx, Out& o) {
    const int nh = int(h.size()), nx = int(x.size()), nout = nx - nh + 1;
    const base_array<T> H = mk<T>(h, 0, h.size()), X = mk<T>(x, 0, x.size());
    if (nout < 0) {
        try {
            const base_array<T> r = FirFilter<T>::conv(X, H);
            o.label(r.size() == 0 ? "nx<nh-1: empty result" : "nx<nh-1: values");
            if (r.size() != 0) o.fail("conv:short-input:values", fmt("FirFilter::conv(x[%d], h[%d]) returned %d values although no output position has all taps inside x", nx, nh, r.size()));
        } catch (const std::exception&) { o.label("nx<nh-1: exception (outside the kernel's domain)"); }
        return;
    }
    const base_array<T> r = FirFilter<T>::conv(X, H);
    if (r.size() != nout) { o.fail("conv:length", fmt("FirFilter::conv(x[%d], h[%d]) returned %d values, expected nx-nh+1 = %d", nx, nh, r.size(), nout)); return; }
    const FirRef R = ld_fir(h, x, x.size(), cplx);
    double worst = 0;
    for (int i = 0; i < nout; ++i) {
        const size_t j = size_t(i + nh - 1);
        const cd v = tocd(r[i]);
        const ld e = finite_cd(v) ? err_at(R, j, v) : ld(INFINITY), tol = 4 * ld(nh) * EPS * R.s[j];
        worst = std::max(worst, tol > 0 ? double(e / tol) : (e == 0 ? 0.0 : 1e300));
        if (!(e <= tol)) {
            o.fail(cplx ? "conv:value:complex" : "conv:value:real",
                   fmt("FirFilter<%s>::conv(x[%d], h[%d]): r[%d]=(%.17g,%.17g), sum_k conj(h[k])x[i+nh-1-k]=(%.17Lg,%.17Lg), |diff|=%.3Lg > 4 nh eps sum|h||x| = %.3Lg", cplx ? "cmplx" : "real", nx,
                       nh, i, v.real(), v.imag(), R.yr[j], R.yi[j], e, tol));
            return;
        }
    }
    o.metric("conv err/tol", worst);
    if (nh >= 2) {   // process() from rest == conv over the zero-prefixed input, bit for bit
        std::vector<cd> xz(size_t(nh - 1), cd(0, 0));
        xz.insert(xz.end(), x.begin(), x.end());
        const base_array<T> viaconv = FirFilter<T>::conv(mk<T>(xz, 0, xz.size()), H);
        FirFilter<T> f(H);
        const base_array<T> viaproc = f.process(X);
        if (!same_bits(viaconv, viaproc)) o.fail("conv:vs-process", fmt("FirFilter(h[%d]).process(x[%d]) from rest differs from conv(zeros(nh-1)|x, h) (sizes %d / %d)", nh, nx, viaproc.size(), viaconv.size()));
    }
}
}   // namespace

VK_SUB(cv, "fir_conv");
static void cv_check(const Json& c, Out& o) {
    const bool cplx = c.geti("cplx") != 0;
    const int nh = c.geti("nh"), hcls = c.geti("hcls"), nx = c.geti("nx"), xcls = c.geti("xcls");
    Rng r(c.getu("seed"));
    const auto h = gen_coeffs(r, nh, hcls, cplx);
    const auto x = gen_input(r, nx, xcls, cplx);
    if (cplx) run_conv<cmplx_t>(h, x, true, o);
    else run_conv<real_t>(h, x, false, o);
    bool nz = false;
    for (auto& v : x) nz |= v != cd(0, 0);
    if (nx >= nh + 1 && nz) o.nontrivial(key_of(5, int(cplx), nh, len_class(nx), hcls, xcls));
    o.label(cplx ? "type:complex" : "type:real");
    o.label(std::string("h:") + h_name(hcls));
    o.label(std::string("x:") + x_name(xcls));
    o.label(nh == 1 ? "nh:1" : nh == 2 ? "nh:2" : nh <= 24 ? "nh:3..24" : "nh:25..1024");
    o.label(nx < nh - 1 ? "rel:nx<nh-1 (h longer than x, outside the kernel's domain)" : nx == nh - 1 ? "rel:nx==nh-1 (h longer than x: no output)" : nx == nh ? "rel:nx==nh (one output)" : "rel:nx>nh");
    if (nx == 1) o.label(nh == 1 ? "nx:1,nh:1" : "nx:1");
    o.label("nx:" + len_label(nx));
}
static void cv_gen(Ctx& ctx) {
    // (1) grid: nh in 1..24 x coefficient class x type x input lengths around nh (h longer than x included)
    for (int nh = 1; nh <= 24; ++nh)
        for (int hcls = 0; hcls < H_NCLS; ++hcls)
            for (int cplx = 0; cplx < 2; ++cplx) {
                const int nxs[] = {0, 1, nh - 3, nh - 2, nh - 1, nh, nh + 1, 3 * nh + 2};
                int j = 0;
                for (int nx : nxs) {
                    ++j;
                    if (nx < 0 || (j > 2 && nx <= 1)) continue;
                    if (!ctx.mine()) continue;
                    ctx.eval(Json::object().set("cplx", cplx).set("nh", nh).set("hcls", hcls).set("nx", nx).set("xcls", int(j & 1 ? S_GAUSS : S_DYNRANGE))
                               .set("seed", (long long)(mix(ctx.seed, key_of(nh, hcls, cplx, nx, 0xC0)) >> 16)));
                }
            }
    // (2) rapidcheck: nh 1..1024, nx 0..20000 with nh*nx <= 1e6
    ctx.rc("random", ctx.by_tier(20000, 320000), [&]() {
        const int nh = pick(0, 7) == 0 ? 1 : pick_nh();
        const int m = pick(0, 19);
        const int top = std::min(20000, std::max(2 * nh, 1000000 / nh));
        const int nx = m == 0 ? pick(0, nh) : m <= 3 ? nh + pick(-1, 1) : m <= 15 ? nh + pick_log(1, top) : pick_log(1, top);
        return Json::object().set("cplx", pick(0, 1)).set("nh", nh).set("hcls", pick(0, H_NCLS - 1)).set("nx", nx).set("xcls", pick(0, X_NCLS - 1)).set("seed", (long long)seed64());
    });
}

// ------------------------------------------------------------------------------------------- FirFilter::coeffs() (mutable reference)
// The header exposes `base_array<T>& coeffs()` ("current impulse response") next to the const getter.  Writing a coefficient vector
// of the same length through it makes that vector "the coefficient vector" of the statement: written before any input the filter is
// at rest and must give sum_k conj?(c2[k]) x[i-k] (strictly inside the property); written after n0 samples the object keeps its
// delay line (`_d`, "filter delay": the last nh-1 inputs), so every later output is sum_k conj?(c2[k]) x[i-k] over the whole input
// history.  The first nh-1 outputs after the write mix new taps with old inputs (own sig: a transposed-form filter would differ
// there and still satisfy the from-rest statement), the later ones depend on inputs fed after the write only.
// how: 0 = whole-array assignment, 1 = element by element through the reference, 2 = one tap changed (the others kept).
VK_SUB(cf, "fir_coeffs");
namespace {
template<class T>
void run_coeffs(const std::vector<cd>& h1, std::vector<cd>& h2, const std::vector<cd>& x, int n0, int how, int fm, uint64_t seed, std::vector<cd>& y, Out& o) {
    const int nh = int(h1.size());
    const base_array<T> H1 = mk<T>(h1, 0, h1.size());
    FirFilter<T> f(H1);
    if (!same_bits(static_cast<const FirFilter<T>&>(f).coeffs(), H1)) { o.fail("fir:coeffs:getter", "coeffs() const of a new filter differs from the constructor argument"); return; }
    auto feed = [&](size_t from, int n, uint64_t sd) {
        size_t pos = from;
        for (int k : frames_of(fm, n, nh, sd)) {
            const base_array<T> out = f.process(mk<T>(x, pos, size_t(k)));
            if (out.size() != k) { o.fail(k == 0 ? "fir:empty-frame" : "fir:length", fmt("FirFilter::process of a %d-sample frame returned %d samples", k, out.size())); return; }
            append(y, out);
            pos += size_t(k);
        }
    };
    feed(0, n0, seed);
    if (o.failed) return;
    if (how == 2) {   // change one tap, keep the others
        Rng r(mix(seed, 0xC0EF));
        const size_t j = size_t(r.range(0, nh - 1));
        std::vector<cd> hh = h1;
        hh[j] = h2[j] == h1[j] ? h1[j] + cd(1, 0) : h2[j];
        h2 = hh;
    }
    const base_array<T> H2 = mk<T>(h2, 0, h2.size());
    if (how == 0) f.coeffs() = H2;
    else {
        base_array<T>& ref = f.coeffs();
        for (int k = 0; k < nh; ++k) if (how == 1 || !(tocd(ref[k]) == tocd(H2[k]))) ref[k] = H2[k];
    }
    if (!same_bits(static_cast<const FirFilter<T>&>(f).coeffs(), H2)) { o.fail("fir:coeffs:getter", "coeffs() const does not return what was written through the mutable coeffs()"); return; }
    feed(size_t(n0), int(x.size()) - n0, mix(seed, 0x5EC0));
}
}   // namespace
static void cf_check(const Json& c, Out& o) {
    const bool cplx = c.geti("cplx") != 0;
    const int nh = c.geti("nh"), hcls = c.geti("hcls"), hcls2 = c.geti("hcls2"), n0 = c.geti("n0"), n1 = c.geti("n1"), xcls = c.geti("xcls"), fm = c.geti("fm"), how = c.geti("how");
    Rng r(c.getu("seed"));
    const auto h1 = gen_coeffs(r, nh, hcls, cplx);
    auto h2 = gen_coeffs(r, nh, hcls2, cplx);
    const auto x = gen_input(r, n0 + n1, xcls, cplx);
    std::vector<cd> y;
    if (cplx) run_coeffs<cmplx_t>(h1, h2, x, n0, how, fm, c.getu("seed"), y, o);
    else run_coeffs<real_t>(h1, h2, x, n0, how, fm, c.getu("seed"), y, o);
    if (o.failed) return;
    if (y.size() != x.size()) { o.fail("fir:length", "total output length differs from the total input length"); return; }
    const FirRef R1 = ld_fir(h1, x, size_t(n0), cplx), R2 = ld_fir(h2, x, x.size(), cplx);
    double worst = 0;
    bool nz = false;
    for (size_t i = 0; i < x.size(); ++i) {
        const bool before = i < size_t(n0);
        const FirRef& R = before ? R1 : R2;
        const ld e = finite_cd(y[i]) ? err_at(R, i, y[i]) : ld(INFINITY), tol = 4 * ld(nh) * EPS * R.s[i];
        worst = std::max(worst, tol > 0 ? double(e / tol) : (e == 0 ? 0.0 : 1e300));
        if (!before) nz |= R.s[i] > 0;
        if (!(e <= tol)) {
            const char* where = before ? "before" : n0 == 0 ? "at-rest" : i < size_t(n0 + nh - 1) ? "transition" : "settled";
            o.fail(std::string("fir:coeffs-write:") + where,
                   fmt("FirFilter<%s> nh=%d, coeffs() written (%s) after %d samples: y[%zu]=(%.17g,%.17g), sum_k conj(c%d[k])x[i-k]=(%.17Lg,%.17Lg), |diff|=%.3Lg > 4 nh eps sum|c||x| = %.3Lg", cplx ? "cmplx" : "real",
                       nh, how == 0 ? "array assignment" : how == 1 ? "element by element" : "one tap", n0, i, y[i].real(), y[i].imag(), before ? 1 : 2, R.yr[i], R.yi[i], e, tol));
            break;
        }
    }
    o.metric("coeffs-write err/tol", worst);
    if (n1 > nh && nz && h1 != h2) o.nontrivial(key_of(6, int(cplx), nh, n0 == 0 ? 0 : n0 < nh ? 1 : 2, how, hcls2, xcls));
    o.label(cplx ? "type:complex" : "type:real");
    o.label(how == 0 ? "write:array assignment" : how == 1 ? "write:element by element" : "write:one tap");
    o.label(n0 == 0 ? "written at rest (no input yet)" : n0 < nh - 1 ? "written with a partly filled delay line" : "written with a full delay line");
    o.label(n1 == 0 ? "after:nothing" : n1 < nh ? "after:transition only" : "after:transition+settled");
    o.label(std::string("h1:") + h_name(hcls));
    o.label(std::string("h2:") + h_name(hcls2));
    o.label(std::string("x:") + x_name(xcls));
    o.label(std::string("frames:") + f_name(fm));
}
static void cf_gen(Ctx& ctx) {
    for (int nh = 2; nh <= 24; ++nh)
        for (int cplx = 0; cplx < 2; ++cplx)
            for (int how = 0; how < 3; ++how) {
                const int n0s[] = {0, 1, nh - 2, nh - 1, 2 * nh + 1};
                for (int n0 : n0s) {
                    if (!ctx.mine()) continue;
                    Rng r(mix(ctx.seed, key_of(nh, cplx, how, n0, 0xCF)));
                    ctx.eval(Json::object().set("cplx", cplx).set("nh", nh).set("hcls", r.range(0, H_NCLS - 1)).set("hcls2", r.coin() ? int(H_RANDOM) : r.range(0, H_NCLS - 1)).set("n0", n0)
                               .set("n1", r.coin() ? 3 * nh + 2 : r.range(0, nh)).set("xcls", r.coin() ? int(S_GAUSS) : int(S_DYNRANGE)).set("fm", r.range(0, 1)).set("how", how).set("seed", (long long)(r.next() >> 16)));
                }
            }
    ctx.rc("random", ctx.by_tier(12000, 200000), [&]() {
        const int nh = pick_nh();
        const int top = std::min(4000, std::max(2 * nh, 400000 / nh));
        const int m = pick(0, 9);
        const int n0 = m == 0 ? 0 : m <= 3 ? pick(1, nh) : pick_log(1, top);
        const int n1 = pick(0, 5) == 0 ? pick(0, nh) : nh + pick_log(1, top);
        return Json::object().set("cplx", pick(0, 1)).set("nh", nh).set("hcls", pick(0, H_NCLS - 1)).set("hcls2", pick(0, H_NCLS - 1)).set("n0", n0).set("n1", n1).set("xcls", pick(0, X_NCLS - 1))
          .set("fm", one_of<int>({F_WHOLE, F_RANDOM, F_SINGLE})).set("how", pick(0, 2)).set("seed", (long long)seed64());
    });
}

// ------------------------------------------------------------------------------------------- FftFilter
namespace {
template<class TH, class T>   // TH: type of the coefficient array given to the constructor, T: type of the processed frames
int run_fftfilt(const std::vector<cd>& h, const std::vector<cd>& x, int fm, uint64_t seed, std::vector<cd>& y, int& nframes, Out& o) {
    FftFilter f(mk<TH>(h, 0, h.size()));
    const int B = f.block_size();
    if (B < 1) { o.fail("fft:block-size", fmt("FftFilter(h[%zu]).block_size() = %d", h.size(), B)); return B; }
    const auto frames = frames_of(fm, int(x.size()), B, seed);
    nframes = int(frames.size());
    size_t pos = 0;
    long pending = 0;   // model: samples accepted and not yet emitted
    int idx = 0;
    for (int k : frames) {
        base_array<T> in = mk<T>(x, pos, size_t(k));
        base_array<T> out = (idx & 1) ? f(in) : f.process(in);
        const long expect = (pending + k) / B * B;
        if (out.size() != expect) {
            o.fail(k == 0 ? "fft:empty-frame" : "fft:length",
                   fmt("FftFilter nh=%zu block=%d: frame %d of %d samples with %ld pending returned %d samples, expected %ld (multiples of the block size)", h.size(), B, idx,
                       k, pending, out.size(), expect));
            return B;
        }
        if (fm == F_BLOCKS && k > 0 && k % B == 0 && pending == 0 && out.size() != k) o.fail("fft:length", "process(x[k*block]) did not return k*block samples");
        pending = pending + k - expect;
        append(y, out);
        pos += size_t(k);
        ++idx;
    }
    if (f.block_size() != B) o.fail("fft:block-size", "block_size() changed while processing");
    return B;
}
}   // namespace

VK_SUB(fftf, "fft_filter");
// "mix" (default 0 = coefficient and input of the same type, selected by "cplx"):
//   1  FftFilter(arr_real h)  . process(arr_cmplx x)   -> complex output, the same sum (conj of a real h is h)
//   2  FftFilter(arr_cmplx h) . process(arr_real x)    -> the overload returns arr_real: real(process(complex(x)))
//   3  as 2 with a complex-typed h whose imaginary parts are all zero (the sum is real: the full statement is decidable)
// For mix 2 the defining sum sum_k conj(c[k]) x[i-k] is complex whenever c has imaginary parts, and an arr_real cannot equal it.
// The check is strict by default (the imaginary part of the sum counts as error, sig fft:complex-h/real-x:imag-dropped);
// "reonly":1 compares the real part only.  The generator sets reonly for mix 2 and counts those cases as excluded:... .
enum { MIX_SAME = 0, MIX_RH_CX = 1, MIX_CH_RX = 2, MIX_CH0_RX = 3 };
static void fftf_check(const Json& c, Out& o) {
    const int mix = c.geti("mix", 0);
    const bool reonly = c.geti("reonly", 0) != 0;
    const bool cplx_h = mix == MIX_SAME ? c.geti("cplx") != 0 : mix == MIX_CH_RX;       // content of h
    const bool cplx_x = mix == MIX_SAME ? c.geti("cplx") != 0 : mix == MIX_RH_CX;       // content (and type) of x
    const bool cplx = cplx_h || cplx_x;                                                 // the defining sum is complex
    const bool out_real = !cplx_x;                                                      // type of the returned array
    const int nh = c.geti("nh"), hcls = c.geti("hcls"), nx = c.geti("nx"), xcls = c.geti("xcls"), fm = c.geti("fm");
    Rng r(c.getu("seed"));
    const auto h = gen_coeffs(r, nh, hcls, cplx_h);
    const auto x = gen_input(r, nx, xcls, cplx_x);
    std::vector<cd> y;
    int nframes = 0;
    int B;
    switch (mix) {
    case MIX_RH_CX: B = run_fftfilt<real_t, cmplx_t>(h, x, fm, c.getu("seed"), y, nframes, o); break;
    case MIX_CH_RX:
    case MIX_CH0_RX: B = run_fftfilt<cmplx_t, real_t>(h, x, fm, c.getu("seed"), y, nframes, o); break;
    default: B = cplx ? run_fftfilt<cmplx_t, cmplx_t>(h, x, fm, c.getu("seed"), y, nframes, o) : run_fftfilt<real_t, real_t>(h, x, fm, c.getu("seed"), y, nframes, o);
    }
    if (o.failed) return;
    const char* tname = mix == MIX_RH_CX ? "real-h/complex-x" : mix == MIX_CH_RX ? "complex-h/real-x" : mix == MIX_CH0_RX ? "complex-h(imag=0)/real-x" : cplx ? "cmplx" : "real";
    const size_t L = size_t(nx / B) * size_t(B);
    if (y.size() != L) { o.fail("fft:length", fmt("FftFilter nh=%d block=%d nx=%d emitted %zu samples in total, expected %zu", nh, B, nx, y.size(), L)); return; }
    const int nblk = nx / B;
    FirRef R = ld_fir(h, x, L, cplx);
    // the direct filter on the same input (one call), for "emits the same sequence as the direct one"; mixed types: FirFilter has
    // one type parameter, so both arrays are promoted to complex; a single tap is outside FirFilter's lengths (its process() throws)
    std::vector<cd> yd;
    const bool direct = nh >= 2;
    if (L > 0 && direct) {
        if (cplx) { FirFilterC d(mk<cmplx_t>(h, 0, h.size())); append(yd, d.process(mk<cmplx_t>(x, 0, L))); }
        else { FirFilterR d(mk<real_t>(h, 0, h.size())); append(yd, d.process(mk<real_t>(x, 0, L))); }
        if (yd.size() != L) { o.fail("fir:length", "FirFilter output length differs from its input length"); return; }
    }
    if (reonly && out_real) {   // real part only: drop the imaginary part of both references
        for (auto& v : R.yi) v = 0;
        for (auto& v : yd) v = cd(v.real(), 0);
    }
    ld c1 = 0;
    for (auto& v : h) c1 += hypotl(ld(v.real()), ld(v.imag()));
    const ld N = ld(B) + ld(nh) - 1;   // transform length of the overlap-add scheme (2^k for block = 2^k - m + 1)
    ld prev = 0;
    double worst = 0, worst_d = 0;
    bool nonzero = false;
    for (int j = 0; j < nblk; ++j) {
        const size_t a = size_t(j) * size_t(B), b = a + size_t(B);
        const ld nb = l2_range(x, a, b);
        const ld tol = 128 * N * EPS * c1 * (nb + prev);
        prev = nb;
        // scaled l2 of the block error and of the direct filter's a-priori bound
        ld m = 0, md = 0, mt = 0, mre = 0;
        std::vector<ld> e(static_cast<size_t>(B)), ed(static_cast<size_t>(B)), td(static_cast<size_t>(B)), ere(static_cast<size_t>(B));
        bool fin = true;
        for (size_t i = a; i < b; ++i) {
            fin &= finite_cd(y[i]);
            e[i - a] = err_at(R, i, y[i]);
            ere[i - a] = fabsl(ld(y[i].real()) - R.yr[i]);
            ed[i - a] = direct ? hypotl(ld(y[i].real()) - ld(yd[i].real()), ld(y[i].imag()) - ld(yd[i].imag())) : ld(0);
            td[i - a] = 4 * ld(nh) * EPS * R.s[i];
            m = std::max(m, e[i - a]); md = std::max(md, ed[i - a]); mt = std::max(mt, td[i - a]); mre = std::max(mre, ere[i - a]);
            nonzero |= R.s[i] > 0;
        }
        auto nrm = [](const std::vector<ld>& v, ld mx) { if (mx == 0) return ld(0); ld s = 0; for (ld q : v) s += (q / mx) * (q / mx); return mx * sqrtl(s); };
        const ld en = fin ? nrm(e, m) : ld(INFINITY), edn = fin ? nrm(ed, md) : ld(INFINITY), tdn = nrm(td, mt);
        const double ratio = tol > 0 ? double(en / tol) : (en == 0 ? 0.0 : 1e300);
        worst = std::max(worst, ratio);
        if (!(en <= tol)) {
            size_t iw = a;
            for (size_t i = a; i < b; ++i) if (e[i - a] == m) { iw = i; break; }
            // complex h, real x: is the real part right and only the (unrepresentable) imaginary part of the sum missing?
            const bool only_imag = mix == MIX_CH_RX && fin && nrm(ere, mre) <= tol;
            const std::string sig = only_imag ? "fft:complex-h/real-x:imag-dropped" : mix == MIX_SAME ? (cplx ? "fft:value:complex" : "fft:value:real") : std::string("fft:value:") + tname;
            o.fail(sig,
                   fmt("FftFilter<%s> nh=%d (%s) block=%d nx=%d (%s) frames=%s: block %d of %d: ||y-yref||_2=%.3Lg > 128 N eps ||c||_1 (||x_blk||+||x_prev||) = %.3Lg; worst sample y[%zu]=(%.17g,%.17g) ref=(%.17Lg,%.17Lg)%s",
                       tname, nh, h_name(hcls), B, nx, x_name(xcls), f_name(fm), j, nblk, en, tol, iw, y[iw].real(), y[iw].imag(), R.yr[iw], R.yi[iw],
                       only_imag ? " -- the real part agrees; process(arr_real) returns arr_real and drops the imaginary part of sum_k conj(c[k]) x[i-k]" : ""));
            break;
        }
        const ld told = tol + tdn;   // derived: both are within their own bound of the same sum
        const double rd = told > 0 ? double(edn / told) : (edn == 0 ? 0.0 : 1e300);
        worst_d = std::max(worst_d, rd);
        if (direct && !(edn <= told)) {
            o.fail(mix == MIX_SAME ? "fft-vs-direct" : "fft-vs-direct:mixed",
                   fmt("FftFilter<%s> vs FirFilter nh=%d block=%d nx=%d: block %d differs by ||.||_2=%.3Lg > %.3Lg (sum of both a-priori bounds)", tname, nh, B, nx, j, edn, told));
            break;
        }
    }
    o.metric(mix == MIX_SAME ? "fft err/tol" : "fft mixed-type err/tol", worst);
    if (direct) o.metric(mix == MIX_SAME ? "fft-vs-direct err/tol" : "fft-vs-direct mixed-type err/tol", worst_d);
    int k2 = 1;
    while (k2 < 2 * nh) k2 *= 2;
    o.label(B == k2 - nh + 1 ? "block:2^k-m+1" : "block:other");   // informational: the text only says "its block size"
    if (nx > nh && nblk >= 2 && nonzero) o.nontrivial(key_of(2, mix == MIX_SAME ? int(cplx) : 1 + mix, nh, len_class(nx), hcls, xcls));
    o.label(std::string("h:") + h_name(hcls));
    o.label(std::string("x:") + x_name(xcls));
    if (mix == MIX_SAME) o.label(cplx ? "type:complex" : "type:real");
    else {
        o.label(std::string("type:") + tname + (mix == MIX_CH_RX && reonly ? " (real part only)" : ""));
        o.label(std::string("mixed ") + tname + " frames:" + f_name(fm));
        o.label(std::string("mixed ") + tname + (nblk == 0 ? " blocks:0" : nblk == 1 ? " blocks:1" : " blocks:2+"));
        if (mix == MIX_CH_RX && reonly) o.label("excluded:complex-h/real-x imaginary part of the sum (arr_real return type); real part checked");
    }
    o.label("nx:" + len_label(nx));
    o.label(std::string("frames:") + f_name(fm));
    o.label(nblk == 0 ? "blocks:0 (nothing emitted)" : nblk == 1 ? "blocks:1" : nblk < 8 ? "blocks:2..7" : "blocks:8+");
    if (near_pow2(nh)) o.label("nh:2^k-1|2^k|2^k+1");
    if (nh <= 2) o.label(nh == 1 ? "nh:1 (single tap; no FirFilter comparison)" : "nh:2");
}

static void fftf_gen(Ctx& ctx) {
    // (1) every coefficient length 2..1024, input crossing at least two block boundaries (block = 2^k - nh + 1 <= 2 nh)
    for (int nh = 2; nh <= 1024; ++nh) {
        const int reps = ctx.by_tier(1, 4);
        for (int v = 0; v < reps; ++v) {
            if (!ctx.mine()) continue;
            Rng r(mix(ctx.seed, key_of(nh, v, 0xFF7)));
            int k2 = 1;
            while (k2 < 2 * nh) k2 *= 2;
            const int B = k2 - nh + 1;
            const int nx = 2 * B + r.range(0, B + 2);
            ctx.eval(Json::object().set("cplx", (nh + v) & 1).set("nh", nh).set("hcls", v == 0 ? int(H_RANDOM) : r.range(0, H_NCLS - 1)).set("nx", nx)
                       .set("xcls", v == 0 ? (nh % 3 == 0 ? int(S_DYNRANGE) : int(S_GAUSS)) : r.range(0, X_NCLS - 1)).set("fm", r.range(0, 2)).set("seed", (long long)(r.next() >> 16)));
        }
    }
    // (2) rapidcheck
    ctx.rc("random", ctx.by_tier(80000, 1280000), [&]() {
        int nh = pick_nh();
        int k2 = 1;
        while (k2 < 2 * nh) k2 *= 2;
        const int B = k2 - nh + 1;
        int mode = pick(0, 19);
        const int top = std::min(60000, std::max(8 * B, 3000000 / nh));
        int nx = mode == 0 ? 0 : mode == 1 ? pick(1, B) : mode <= 4 ? B * pick(1, 4) + pick(-1, 1) : mode <= 12 ? std::min(top, B * pick(2, 9) + pick(0, B - 1)) : pick_log(1, top);
        nx = std::max(0, nx);
        return Json::object().set("cplx", pick(0, 1)).set("nh", nh).set("hcls", pick(0, H_NCLS - 1)).set("nx", nx).set("xcls", pick(0, X_NCLS - 1)).set("fm", pick(0, F_NMODES - 1))
          .set("seed", (long long)seed64());
    });
    // (2b) mixed coefficient/input types for every coefficient length 1..1024 (2..3 blocks of input), and the single tap (same types)
    auto case_mixed = [](int mix, int nh, int hcls, int nx, int xcls, int fm, long long seed) {
        Json cs = Json::object().set("cplx", mix == MIX_CH0_RX ? 0 : 1).set("mix", mix).set("nh", nh).set("hcls", hcls).set("nx", nx).set("xcls", xcls).set("fm", fm).set("seed", seed);
        if (mix == MIX_CH_RX) cs.set("reonly", 1);   // excluded class: see fftf_check
        return cs;
    };
    for (int nh = 1; nh <= 1024; ++nh) {
        const int reps = ctx.by_tier(1, 3);
        for (int v = 0; v < reps; ++v) {
            if (!ctx.mine()) continue;
            Rng r(mix(ctx.seed, key_of(nh, v, 0xFF8)));
            int k2 = 1;
            while (k2 < 2 * nh) k2 *= 2;
            const int B = k2 - nh + 1;
            const int nx = 2 * B + r.range(0, B + 2);
            const int mixv = 1 + (nh + v) % 3;
            ctx.eval(case_mixed(mixv, nh, v == 0 ? int(H_RANDOM) : r.range(0, H_NCLS - 1), nx, v == 0 ? (nh % 2 ? int(S_DYNRANGE) : int(S_GAUSS)) : r.range(0, X_NCLS - 1), r.range(0, 3),
                                (long long)(r.next() >> 16)));
        }
    }
    for (int cplx = 0; cplx < 2; ++cplx)
        for (int hcls = 0; hcls < H_NCLS; ++hcls)
            for (int fm = 0; fm < F_NMODES; ++fm) {
                if (!ctx.mine()) continue;
                Rng r(mix(ctx.seed, key_of(cplx, hcls, fm, 0xFF9)));
                ctx.eval(Json::object().set("cplx", cplx).set("nh", 1).set("hcls", hcls).set("nx", r.range(0, 9)).set("xcls", r.range(0, X_NCLS - 1)).set("fm", fm).set("seed", (long long)(r.next() >> 16)));
            }
    ctx.rc("mixed", ctx.by_tier(8000, 128000), [&]() {
        const int mixv = pick(0, 3);
        const int nh = (mixv == MIX_SAME || pick(0, 7) == 0) ? pick(1, 2) : pick_nh();   // same types only for the 1-/2-tap vectors here
        int k2 = 1;
        while (k2 < 2 * nh) k2 *= 2;
        const int B = k2 - nh + 1;
        int mode = pick(0, 19);
        const int top = std::min(20000, std::max(8 * B, 1000000 / nh));
        int nx = mode == 0 ? 0 : mode == 1 ? pick(1, B) : mode <= 4 ? B * pick(1, 4) + pick(-1, 1) : mode <= 12 ? std::min(top, B * pick(2, 9) + pick(0, B - 1)) : pick_log(1, top);
        nx = std::max(0, nx);
        const int hcls = pick(0, H_NCLS - 1), xcls = pick(0, X_NCLS - 1), fm = pick(0, F_NMODES - 1);
        if (mixv == MIX_SAME) return Json::object().set("cplx", pick(0, 1)).set("nh", nh).set("hcls", hcls).set("nx", nx).set("xcls", xcls).set("fm", fm).set("seed", (long long)seed64());
        return case_mixed(mixv, nh, hcls, nx, xcls, fm, (long long)seed64());
    });
    // (3) long inputs
    {
        Rng r(mix(ctx.seed, 0xF1208));
        const int count = ctx.by_tier(16, 96);
        for (int k = 0; k < count; ++k) {
            const int nh = k % 8 == 0 ? 1024 : k % 8 == 1 ? 2 : k % 8 == 2 ? 513 : r.range(2, 300);
            const int nx = k % 4 == 0 ? 100000 : r.range(30000, 100000);
            const int xcls = k % 3 == 0 ? int(S_DYNRANGE) : k % 3 == 1 ? int(S_GAUSS) : X_SPARSE;
            Json cs = Json::object().set("cplx", (k / 8) % 2).set("nh", nh).set("hcls", k % 5 == 0 ? int(H_LAST) : int(H_RANDOM)).set("nx", nx).set("xcls", xcls)
                        .set("fm", k % 3).set("seed", (long long)(r.next() >> 16));
            if (!ctx.mine()) continue;
            ctx.eval(cs);
        }
    }
}

// ------------------------------------------------------------------------------------------- xcorr
VK_SUB(xc, "xcorr");
static void xc_check(const Json& c, Out& o) {
    const bool cplx = c.geti("cplx") != 0, autoc = c.geti("auto") != 0;
    const int n1 = c.geti("n1"), n2 = autoc ? n1 : c.geti("n2"), ca = c.geti("ca"), cb = c.geti("cb");
    Rng r(c.getu("seed"));
    const auto a = gen_input(r, n1, ca, cplx);
    const auto b = autoc ? a : gen_input(r, n2, cb, cplx);
    std::vector<cd> y;
    if (cplx) {
        arr_cmplx A = mk<cmplx_t>(a, 0, a.size());
        if (autoc) append(y, xcorr(A));
        else append(y, xcorr(A, mk<cmplx_t>(b, 0, b.size())));
    } else {
        arr_real A = mk<real_t>(a, 0, a.size());
        if (autoc) append(y, xcorr(A));
        else append(y, xcorr(A, mk<real_t>(b, 0, b.size())));
    }
    const int nout = n1 + n2 - 1;
    if (int(y.size()) != nout) { o.fail("xcorr:length", fmt("xcorr of %d and %d samples returned %zu values, expected n1+n2-1=%d", n1, n2, y.size(), nout)); return; }
    // definition: r[lag + n2 - 1] = sum_n a[n+lag] conj(b[n]),  lag = -(n2-1) .. n1-1
    std::vector<ld> ar(a.size()), ai(a.size()), br(b.size()), bi(b.size());
    for (size_t i = 0; i < a.size(); ++i) { ar[i] = a[i].real(); ai[i] = a[i].imag(); }
    for (size_t i = 0; i < b.size(); ++i) { br[i] = b[i].real(); bi[i] = -ld(b[i].imag()); }
    std::vector<cld> ref(static_cast<size_t>(nout)), got(static_cast<size_t>(nout));
    bool fin = true;
    for (int lag = -(n2 - 1); lag <= n1 - 1; ++lag) {
        const int lo = std::max(0, -lag), hi = std::min(n2 - 1, n1 - 1 - lag);
        ld sr = 0, si = 0;
        for (int n = lo; n <= hi; ++n) {
            const ld p = ar[size_t(n + lag)], q = ai[size_t(n + lag)], u = br[size_t(n)], v = bi[size_t(n)];
            sr += p * u - q * v;
            si += p * v + q * u;
        }
        ref[size_t(lag + n2 - 1)] = cld(sr, si);
    }
    for (int i = 0; i < nout; ++i) { got[size_t(i)] = cld(y[size_t(i)].real(), y[size_t(i)].imag()); fin &= finite_cd(y[size_t(i)]); }
    int M = 1;
    while (M < nout) M *= 2;
    const ld na = l2_range(a, 0, a.size()), nb = l2_range(b, 0, b.size());
    const ld tol = 128 * ld(M) * EPS * na * nb;
    const ld e = fin ? l2diff(got, ref) : ld(INFINITY);
    const double ratio = tol > 0 ? double(e / tol) : (e == 0 ? 0.0 : 1e300);
    o.metric("xcorr err/tol", ratio);
    if (!(e <= tol)) {
        size_t iw = 0;
        ld mw = -1;
        for (size_t i = 0; i < ref.size(); ++i) { ld d = std::abs(got[i] - ref[i]); if (!(d <= mw)) { mw = d; iw = i; } }
        o.fail(std::string("xcorr:value:") + (autoc ? "auto:" : "cross:") + (cplx ? "complex" : "real"),
               fmt("xcorr%s<%s> n1=%d (%s) n2=%d (%s): ||r-rref||_2=%.3Lg > 128 M eps ||a|| ||b|| = %.3Lg; worst element %zu (lag %d): got (%.17g,%.17g), sum a[n+lag]conj(b[n]) = (%.17Lg,%.17Lg)",
                   autoc ? "(x)" : "(a,b)", cplx ? "cmplx" : "real", n1, x_name(ca), n2, x_name(cb), e, tol, iw, int(iw) - (n2 - 1), y[iw].real(), y[iw].imag(), ref[iw].real(), ref[iw].imag()));
    }
    if (na > 0 && nb > 0 && (autoc ? n1 >= 2 : n1 != n2)) o.nontrivial(key_of(3, int(cplx), int(autoc), n1, n2, ca, cb));
    o.label(autoc ? "form:auto" : "form:cross");
    o.label(cplx ? "type:complex" : "type:real");
    o.label(std::string("a:") + x_name(ca));
    if (!autoc) o.label(std::string("b:") + x_name(cb));
    o.label(n1 == n2 ? "n1==n2" : n1 < n2 ? "n1<n2" : "n1>n2");
    o.label(nout == M ? "n1+n2-1 == 2^k (no padding)" : "padded");
    if (nout >= 7 && (nout == M || nout == M - 1 || nout == M / 2 + 1)) {   // the zero-padding length changes between 2^k and 2^k+1
        const char* lc = std::max(n1, n2) <= 48 ? "len<=48" : std::max(n1, n2) <= 512 ? "len 49..512" : "len 513..5000";
        o.label(std::string("boundary:") + (cplx ? "complex" : "real") + (autoc ? "(auto)" : "") + ": n1+n2-1 = " + (nout == M ? "2^k" : nout == M - 1 ? "2^k-1" : "2^k+1") + ", " + lc);
        if (!autoc) o.label(std::min(n1, n2) * 4 < std::max(n1, n2) ? "boundary-split:unbalanced (min < max/4)" : "boundary-split:balanced");
        if (M >= 8192) o.label("boundary:around 8192 (largest padding length reachable with lengths <= 5000)");
    }
    o.label(std::max(n1, n2) <= 48 ? "len:1..48" : std::max(n1, n2) <= 512 ? "len:49..512" : "len:513..5000");
}
static void xc_gen(Ctx& ctx) {
    // (1) all (n1, n2) in 1..48^2, real and complex, three content pairings -- complete in both tiers
    const int pairs[][2] = {{S_GAUSS, S_GAUSS}, {S_IMPULSE_RAND, S_IMPULSE_RAND}, {S_DYNRANGE, S_GAUSS}, {S_GAUSS, S_DYNRANGE}, {X_SPARSE, S_TONE}, {S_IMPULSE_LAST, S_IMPULSE0}};
    const int npair = ctx.by_tier(3, 6);
    for (int n1 = 1; n1 <= 48; ++n1)
        for (int n2 = 1; n2 <= 48; ++n2)
            for (int cplx = 0; cplx < 2; ++cplx)
                for (int p = 0; p < npair; ++p) {
                    if (!ctx.mine()) continue;
                    int q = (p == 2 && ((n1 + n2) & 1)) ? 3 : p;
                    ctx.eval(Json::object().set("cplx", cplx).set("auto", 0).set("n1", n1).set("n2", n2).set("ca", pairs[q][0]).set("cb", pairs[q][1])
                               .set("seed", (long long)(mix(ctx.seed, key_of(n1, n2, cplx, p)) >> 16)));
                }
    // autocorrelation overloads: every n in 1..48 x every content class
    for (int n = 1; n <= 48; ++n)
        for (int cplx = 0; cplx < 2; ++cplx)
            for (int cls = 0; cls < X_NCLS; ++cls) {
                if (!ctx.mine()) continue;
                ctx.eval(Json::object().set("cplx", cplx).set("auto", 1).set("n1", n).set("n2", n).set("ca", cls).set("cb", cls).set("seed", (long long)(mix(ctx.seed, key_of(n, cplx, cls, 77)) >> 16)));
            }
    // length sums straddling every power of two reachable with lengths <= 5000: n1+n2-1 in {2^k-1, 2^k, 2^k+1}, k = 3..13, real and
    // complex, with the shortest possible a, the shortest possible b, an even split and a random split
    for (int k = 3; k <= 13; ++k)
        for (int d = -1; d <= 1; ++d)
            for (int cplx = 0; cplx < 2; ++cplx)
                for (int sp = 0; sp < 4; ++sp) {
                    if (!ctx.mine()) continue;
                    const int S = (1 << k) + d + 1;   // n1 + n2
                    const int lo = std::max(1, S - 5000), hi = std::min(5000, S - 1);
                    Rng r(mix(ctx.seed, key_of(k, d + 1, cplx, sp, 0xB0D)));
                    const int n1 = sp == 0 ? lo : sp == 1 ? hi : sp == 2 ? S / 2 : r.range(lo, hi);
                    const int ca = sp == 3 ? r.range(0, X_NCLS - 1) : (k + sp) % 2 ? int(S_GAUSS) : int(S_DYNRANGE), cb = sp == 3 ? r.range(0, X_NCLS - 1) : int(S_GAUSS);
                    ctx.eval(Json::object().set("cplx", cplx).set("auto", 0).set("n1", n1).set("n2", S - n1).set("ca", ca).set("cb", cb).set("seed", (long long)(r.next() >> 16)));
                }
    // (2) sampled to 5000
    ctx.rc("sampled", ctx.by_tier(40000, 320000), [&]() {
        int n1 = pick_log(1, 5000), n2 = pick_log(1, 5000);
        int m = pick(0, 7);
        bool boundary = false;
        if (m == 1) {   // n1+n2-1 = 2^k + {-1,0,1} exactly, k up to 13, split anywhere the lengths allow (not only n1 ~ n2)
            int k = pick(3, 13);
            if (k >= 12 && pick(0, 2) != 0) k = pick(3, 11);   // the two largest sums cost 4e6..2e7 reference terms each: a third of their share
            const int S = (1 << k) + pick(-1, 1) + 1;
            const int lo = std::max(1, S - 5000), hi = std::min(5000, S - 1);
            n1 = pick(0, 2) == 0 ? pick(lo, hi) : lo - 1 + pick_log(1, hi - lo + 1);
            n2 = S - n1;
            if (flip()) std::swap(n1, n2);
            boundary = true;
        }
        if (m == 0) { int k = pick(1, 12); n1 = std::max(1, std::min(5000, (1 << k) / 2 + pick(-1, 1))); n2 = std::max(1, std::min(5000, (1 << k) + pick(-1, 2) - n1)); }   // n1+n2-1 around 2^k
        int au = !boundary && pick(0, 4) == 0;
        return Json::object().set("cplx", pick(0, 1)).set("auto", au).set("n1", n1).set("n2", au ? n1 : n2).set("ca", pick(0, X_NCLS - 1)).set("cb", pick(0, X_NCLS - 1))
          .set("seed", (long long)seed64());
    });
}

// ------------------------------------------------------------------------------------------- MAFilter
namespace {
template<class T>
void run_ma(int n, const std::vector<cd>& x, const std::vector<int>& frames, bool scalar, std::vector<cd>& y, Out& o) {
    MAFilter<T> f(n);
    size_t pos = 0;
    int idx = 0;
    for (int k : frames) {
        if (scalar && k == 1) {
            base_array<T> in = mk<T>(x, pos, 1);
            y.push_back(tocd((idx & 1) ? f(in[0]) : f.process(in[0])));
        } else {
            base_array<T> in = mk<T>(x, pos, size_t(k));
            base_array<T> out = (idx & 1) ? f(in) : f.process(in);
            if (out.size() != k) { o.fail(k == 0 ? "ma:empty-frame" : "ma:length", fmt("MAFilter(%d)::process of a %d-sample frame returned %d samples", n, k, out.size())); return; }
            append(y, out);
        }
        pos += size_t(k);
        ++idx;
    }
}
}   // namespace

VK_SUB(ma, "ma_filter");
static void ma_check(const Json& c, Out& o) {
    const bool cplx = c.geti("cplx") != 0;
    const int n = c.geti("n"), nx = c.geti("nx"), xcls = c.geti("xcls"), fm = c.geti("fm");
    Rng r(c.getu("seed"));
    const auto x = gen_input(r, nx, xcls, cplx);
    const auto frames = frames_of(fm, nx, n, c.getu("seed"));
    std::vector<cd> y;
    if (cplx) run_ma<cmplx_t>(n, x, frames, true, y, o);
    else run_ma<real_t>(n, x, frames, true, y, o);
    if (o.failed) return;
    // reference: FIR with n equal taps 1/n  ==  (1/n) sum_{k<n} x[i-k], in long double
    std::vector<cd> ones(static_cast<size_t>(n), cd(1, 0));
    const FirRef R = ld_fir(ones, x, x.size(), cplx);   // s[i] = sum_{k<n} |x[i-k]|
    ld pmax = 0;
    double worst = 0;
    for (size_t i = 0; i < x.size(); ++i) {
        pmax = std::max(pmax, hypotl(ld(x[i].real()), ld(x[i].imag())));
        const ld rr = R.yr[i] / ld(n), ri = R.yi[i] / ld(n);
        const ld e = finite_cd(y[i]) ? hypotl(ld(y[i].real()) - rr, ld(y[i].imag()) - ri) : ld(INFINITY);
        const ld tol = 4 * ld(n) * EPS * pmax;
        worst = std::max(worst, tol > 0 ? double(e / tol) : (e == 0 ? 0.0 : 1e300));
        if (!(e <= tol)) {
            o.fail(cplx ? "ma:value:complex" : "ma:value:real",
                   fmt("MAFilter<%s>(%d) nx=%d (%s) frames=%s: y[%zu]=(%.17g,%.17g), (1/n)sum_{k<n}x[i-k]=(%.17Lg,%.17Lg), |diff|=%.3Lg > 4 n eps max|x| = %.3Lg", cplx ? "cmplx" : "real",
                       n, nx, x_name(xcls), f_name(fm), i, y[i].real(), y[i].imag(), rr, ri, e, tol));
            break;
        }
    }
    o.metric("ma err/tol", worst);
    // the library's own FIR with taps 1/n (n >= 2: FirFilter's documented lengths); derived tolerance = both a-priori bounds
    if (!o.failed && n >= 2 && nx > 0) {
        std::vector<cd> taps(static_cast<size_t>(n), cd(1.0 / n, 0));
        std::vector<cd> yf;
        if (cplx) { FirFilterC d(mk<cmplx_t>(taps, 0, taps.size())); append(yf, d.process(mk<cmplx_t>(x, 0, x.size()))); }
        else { FirFilterR d(mk<real_t>(taps, 0, taps.size())); append(yf, d.process(mk<real_t>(x, 0, x.size()))); }
        pmax = 0;
        double wf = 0;
        for (size_t i = 0; i < x.size() && i < yf.size(); ++i) {
            pmax = std::max(pmax, hypotl(ld(x[i].real()), ld(x[i].imag())));
            const ld tol = 4 * ld(n) * EPS * pmax + 4 * ld(n) * EPS * R.s[i] / ld(n) + 2 * EPS * R.s[i] / ld(n);   // last term: taps are fl(1/n)
            const ld e = hypotl(ld(y[i].real()) - ld(yf[i].real()), ld(y[i].imag()) - ld(yf[i].imag()));
            wf = std::max(wf, tol > 0 ? double(e / tol) : (e == 0 ? 0.0 : 1e300));
            if (!(e <= tol)) { o.fail("ma-vs-fir", fmt("MAFilter(%d) vs FirFilter(ones/n) at i=%zu: |diff|=%.3Lg > %.3Lg", n, i, e, tol)); break; }
        }
        o.metric("ma-vs-fir err/tol", wf);
    }
    if (nx > n && n >= 2 && R.s.size() && pmax > 0) o.nontrivial(key_of(4, int(cplx), n, len_class(nx), xcls, fm == F_SINGLE));
    o.label(cplx ? "type:complex" : "type:real");
    o.label(std::string("x:") + x_name(xcls));
    o.label("nx:" + len_label(nx));
    o.label(std::string("frames:") + f_name(fm));
    o.label(n == 1 ? "n:1" : n <= 16 ? "n:2..16" : "n:17..300");
    o.label(nx >= 2 * n ? "accumulator re-summed at least twice" : nx >= n ? "re-summed once" : "never re-summed");
}
static void ma_gen(Ctx& ctx) {
    // (1) every n in 1..300, real and complex, a few (length, content, framing) combinations
    for (int n = 1; n <= 300; ++n)
        for (int cplx = 0; cplx < 2; ++cplx)
            for (int v = 0; v < ctx.by_tier(3, 8); ++v) {
                if (!ctx.mine()) continue;
                Rng r(mix(ctx.seed, key_of(n, cplx, v, 0x3A)));
                const int nx = v == 0 ? 3 * n + r.range(0, n) : v == 1 ? r.range(0, n) : r.range(n, 12 * n + 7);
                const int xcls = v == 0 ? int(S_GAUSS) : v == 1 ? int(S_DYNRANGE) : r.range(0, X_NCLS - 1);
                ctx.eval(Json::object().set("cplx", cplx).set("n", n).set("nx", nx).set("xcls", xcls).set("fm", r.range(0, 3) == 2 ? 3 : r.range(0, 1)).set("seed", (long long)(r.next() >> 16)));
            }
    // (2) rapidcheck
    ctx.rc("random", ctx.by_tier(100000, 800000), [&]() {
        int n = pick(0, 3) == 0 ? pick(1, 8) : pick_log(1, 300);
        int m = pick(0, 19);
        int nx = m == 0 ? 0 : m <= 2 ? pick(1, n) : m <= 9 ? n + pick_log(1, 20000) : pick_log(1, 20000);
        int fm = one_of<int>({F_WHOLE, F_RANDOM, F_SINGLE});
        return Json::object().set("cplx", pick(0, 1)).set("n", n).set("nx", nx).set("xcls", pick(0, X_NCLS - 1)).set("fm", fm).set("seed", (long long)seed64());
    });
    // (3) long inputs
    {
        Rng r(mix(ctx.seed, 0xF1209));
        const int count = ctx.by_tier(16, 64);
        for (int k = 0; k < count; ++k) {
            Json cs = Json::object().set("cplx", k & 1).set("n", k % 4 == 0 ? 300 : r.range(1, 300)).set("nx", k % 4 == 1 ? 100000 : r.range(30000, 100000))
                        .set("xcls", k % 3 == 0 ? int(S_DYNRANGE) : k % 3 == 1 ? int(S_GAUSS) : int(S_CONST)).set("fm", k % 2).set("seed", (long long)(r.next() >> 16));
            if (!ctx.mine()) continue;
            ctx.eval(cs);
        }
    }
}

VK_FRESH_THREADS;
VK_MAIN("C07")
